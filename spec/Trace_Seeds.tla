---------------------------- MODULE Trace_Seeds ----------------------------
(* L3 for C19: each trace lists, for one extraction, the canonical hash of the output obtained in a fresh interpreter per    *)
(* hash seed (the schedule: iteration order of every set / dict of unrelated objects).                                      *)
EXTENDS Integers, Sequences, FiniteSets, TLC, Json, IOUtils
Traces == JsonDeserialize(IOEnv.TRACE_FILE)
VARIABLE tid
Tr == Traces[tid]
Runs == {Tr.runs[i] : i \in 1..Len(Tr.runs)}
Clauses == (IF Cardinality({r.status : r \in Runs}) > 1 THEN {"C19.status"} ELSE {}) \cup
           (IF Cardinality({r.sha : r \in {x \in Runs : x.status = "ok"}}) > 1 THEN {"C19.output"} ELSE {})
Init == tid \in 1..Len(Traces)
Next == UNCHANGED tid
Spec == Init /\ [][Next]_tid
Report == PrintT(<<"VERDICT", Tr.id, Clauses, [runs |-> Len(Tr.runs)]>>)
=============================================================================
