---------------------------- MODULE Trace_Seeds ----------------------------
(* L3 for C19: each trace lists, for one extraction, the canonical hash of the output obtained in a fresh interpreter per    *)
(* hash seed (the schedule: iteration order of every set / dict of unrelated objects).                                      *)
EXTENDS Integers, Sequences, FiniteSets, TLC, Json, IOUtils
Traces == JsonDeserialize(IOEnv.TRACE_FILE)
VARIABLE tid
Tr == Traces[tid]
Runs == {Tr.runs[i] : i \in 1..Len(Tr.runs)}
\* inputs parsed by rdflib (Turtle, RDF/XML, N3, JSON-LD text, an rdflib Graph) reach the library in the iteration order of
\* rdflib's memory store - a set of triples: the order of the shapes, first-seen examples and tie winners follow the hash seed
\* (known finding KF.C19.rdfliborder); the line-based readers (N-Triples, TSV, the streaming Turtle reader) keep document order
RdflibChannel == Tr.channel \in {"turtle", "xml", "n3", "json-ld", "rdflib"}
Clauses == (IF Cardinality({r.status : r \in Runs}) > 1 THEN {"C19.status"} ELSE {}) \cup
           (IF Cardinality({r.sha : r \in {x \in Runs : x.status = "ok"}}) > 1
            THEN {IF RdflibChannel THEN "KF.C19.rdfliborder" ELSE "C19.output"} ELSE {})
Init == tid \in 1..Len(Traces)
Next == UNCHANGED tid
Spec == Init /\ [][Next]_tid
Report == PrintT(<<"VERDICT", Tr.id, Clauses, [runs |-> Len(Tr.runs)]>>)
=============================================================================
