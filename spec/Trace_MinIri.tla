--------------------------- MODULE Trace_MinIri ---------------------------
(* L3 for C17: one trace per extraction with detect_minimal_iri and / or examples_mode: for every shape, the IRIs of its     *)
(* instances (character sequences, in tracking order), the stem printed ('[<stem>~] AND' or sh:pattern), the example shown  *)
(* for the shape and for each constraint, and the values that property actually has on the shape's instances.               *)
EXTENDS MinIri, Json, IOUtils
Traces == JsonDeserialize(IOEnv.TRACE_FILE)
VARIABLE tid
Tr == Traces[tid]
SetOf(q) == {q[i] : i \in 1..Len(q)}
ShapeClauses(s) ==
  (IF Tr.minIri /\ s.stem # StemSpec(SetOf(s.instances)) THEN {"C17.stem"} ELSE {}) \cup
  (IF Tr.minIri /\ StemImpl(s.instances) # StemSpec(SetOf(s.instances)) THEN {"MACHINERY.foldorder"} ELSE {}) \cup
  (IF ~Tr.minIri /\ s.stem # <<>> THEN {"C17.stem.unrequested"} ELSE {}) \cup
  (IF s.hasExample /\ s.example \notin SetOf(s.instanceIds) THEN {"C17.shapeexample"} ELSE {}) \cup
  (IF Tr.shapeExamples /\ ~s.hasExample /\ s.instanceIds # <<>> THEN {"C17.shapeexample.missing"} ELSE {}) \cup
  (IF \E i \in 1..Len(s.tcs) : s.tcs[i].hasExample /\ s.tcs[i].example \notin SetOf(s.tcs[i].values) THEN {"C17.consexample"} ELSE {})
Clauses == UNION {ShapeClauses(Tr.shapes[i]) : i \in 1..Len(Tr.shapes)}
Init == tid \in 1..Len(Traces)
Next == UNCHANGED tid
Spec == Init /\ [][Next]_tid
Report == PrintT(<<"VERDICT", Tr.id, Clauses, [shapes |-> Len(Tr.shapes)]>>)
=============================================================================
