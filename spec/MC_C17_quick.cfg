SPECIFICATION Spec
CONSTANTS
  Alphabet = {"h", "s", ":", "/", "#", "a"}
  L = 4
  N = 2
INVARIANT StemAgrees
CHECK_DEADLOCK FALSE
