SPECIFICATION Spec
CONSTANTS
  U <- MC_Usmall
  K = 3
  CfgSet <- MC_CfgC02
  Perm = FALSE
INVARIANT InvC12
