SPECIFICATION Spec
CONSTANTS
  N = 4
INVARIANT ImplIsSpec
