SPECIFICATION Spec
CONSTANTS
  L = 2
  Layouts = "all"
INVARIANT GrammarLemma
INVARIANT C06Design
