------------------------- MODULE MC_LiteralTyping -------------------------
(* L1: the whole table (lexical class x declared kind x channel x form x inference switch) is one state each; the invariants are  *)
(* the design-level statements of C06 / C07 / C08 (local channels are faithful), of C15 (the endpoint is faithful exactly on its   *)
(* domain, and the recorded finding is exactly the rest of the plain-string / integer part) and of C07's documented divergence.    *)
EXTENDS LiteralTyping
VARIABLES lc, d, ch, form, infer
vars == <<lc, d, ch, form, infer>>
Init == /\ lc \in LexClasses /\ d \in Decls /\ ch \in Channels /\ form \in {"quoted", "shorthand"} /\ infer \in BOOLEAN
        /\ IF form = "shorthand" THEN ch \in {"turtle_iter", "tsv_spo", "turtle"} /\ ShorthandDecl(lc) # "none" /\ d = ShorthandDecl(lc)
           ELSE WellTyped(lc, d)
Next == UNCHANGED vars
Spec == Init /\ [][Next]_vars
T == Type(ch, form, lc, d, infer)
LocalQuotedFaithful == (ch # "endpoint" /\ form = "quoted") => T = Faithful(lc, d)
RdflibShorthandFaithful == (ch \in RdflibChannels /\ form = "shorthand") => T = Faithful(lc, d)
\* the endpoint agrees with the local extraction on all of C15's domain ...
EndpointOnDomain == (ch = "endpoint" /\ C15Domain(lc, d, infer)) => T = Faithful(lc, d)
\* ... on none of the recorded finding ...
EndpointFinding == (ch = "endpoint" /\ C15Finding(lc, d, infer)) => T # Faithful(lc, d)
\* ... and domain + finding are all of the plain-string / integer literals
DomainSplit == (d \in {"plain", "integer"}) => (C15Domain(lc, d, infer) # C15Finding(lc, d, infer))
\* outside them (the datatypes "dropped by the result reader") the endpoint is right only by coincidence of text and kind
EndpointElsewhere == (ch = "endpoint" /\ d \notin {"plain", "integer"} /\ T = Faithful(lc, d)) => (d = "float" /\ lc = "dec" /\ infer)
\* streaming reader, shorthand: faithful exactly for the integers (with inference on)
StreamingShorthand == (ch = "turtle_iter" /\ form = "shorthand") => ((T = Faithful(lc, d)) <=> (infer /\ lc \in Integers_))
\* whatever the channel, a value is typed by its declared kind or by its text: nothing else is ever printed
Closed == T \in {Faithful(lc, d), ByText(lc, TRUE), ByText(lc, FALSE), "IRI"}
=============================================================================
