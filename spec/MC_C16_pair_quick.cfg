SPECIFICATION Spec
CONSTANTS
  U <- MC_Usmall
  K = 3
  Pairs <- PairsCapBig
  Rel = "same"
INVARIANT RelHolds
