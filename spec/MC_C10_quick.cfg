SPECIFICATION Spec
CONSTANTS
  U <- MC_Usmall
  K = 3
  CfgSet <- MC_CfgTargets
  Perm = FALSE
INVARIANT InvC10
