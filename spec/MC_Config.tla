----------------------------- MODULE MC_Config -----------------------------
(* L1 for C20: the whole argument product is the state space; the constructor as coded agrees with the contract *)
(* everywhere except on the call site recorded as known finding KF.C20.selectorgraph.                            *)
EXTENDS Config
CONSTANTS MaxSources, FormatSet, CompSet, ExampleSet
VARIABLES a, c
vars == <<a, c>>
ArgSpace == [src : {s \in SUBSET Sources : Cardinality(s) <= MaxSources}, tgt : SUBSET TargetArgs, allc : BOOLEAN,
             comp : CompSet, fmt : FormatSet, ex : ExampleSet, disableOr : BOOLEAN, redundantOr : BOOLEAN]
CallSpace == [thrnum : {-1, 0, 1, 50, 100, 101}, thrden : {100}, ofmt : {"ShEx", "Shacl", "bogus"}, string : BOOLEAN, file : BOOLEAN, uml : BOOLEAN]
A0 == [src |-> {"raw_graph"}, tgt |-> {}, allc |-> TRUE, comp |-> "none", fmt |-> "nt", ex |-> "none", disableOr |-> TRUE, redundantOr |-> FALSE]
C0 == [thrnum |-> 0, thrden |-> 100, ofmt |-> "ShEx", string |-> TRUE, file |-> FALSE, uml |-> FALSE]
Init == (a \in ArgSpace /\ c = C0) \/ (a = A0 /\ c \in CallSpace)
Next == UNCHANGED vars
Spec == Init /\ [][Next]_vars
CtorAgrees == (Ctor(a) = "accept") = (Valid(a) /\ ~KFSelectorGraph(a) /\ ~KFCompressedSelectorGraph(a))
CallAgrees == (Call(c) = "ok") = ValidCall(c)
=============================================================================
