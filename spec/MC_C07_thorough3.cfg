SPECIFICATION Spec
CONSTANTS
  GapSet = {"sp", "nl", "tab"}
  ObjForms = {"o.spec"}
  SubjForms = {"s.pn"}
INVARIANT GeneratorLemma
INVARIANT C07Design
