SPECIFICATION Spec
CONSTANTS
  U <- MC_Usmall
  K = 4
  Pairs <- PairsOr
  Rel = "or"
INVARIANT RelHolds
