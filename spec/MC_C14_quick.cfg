SPECIFICATION Spec
CONSTANTS
  U <- MC_Uiri
  K = 3
  Pairs <- PairsInverse
  Rel = "inverse"
INVARIANT RelHolds
