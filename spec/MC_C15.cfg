SPECIFICATION Spec
CONSTANTS
  Nodes = {"a", "b", "c"}
  TYPE = "type"
  Props = {"p"}
  MaxCalls = 4
  MaxTriples = 3
  WithClassCalls = FALSE
INVARIANT Coherent
INVARIANT Cheaper
INVARIANT LocalSound
CHECK_DEADLOCK FALSE
