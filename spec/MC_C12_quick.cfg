SPECIFICATION Spec
CONSTANTS
  U <- MC_Usmall
  K = 3
  Pairs <- PairsThr
  Rel = "thr"
INVARIANT RelHolds
