------------------------------- MODULE MC_Sim -------------------------------
(***************************************************************************)
(* Leg L2 (spec -> code): TLC in simulation mode walks random behaviours   *)
(* of the pipeline state machine over a larger universe (documents of up   *)
(* to K = 14 triples, every configuration of SimCfgs); every finished      *)
(* behaviour prints the document, the configuration and the schema the     *)
(* operational model predicts.  The harness replays each one into the real *)
(* code; Trace_Shexer then judges the real output (property clauses) and   *)
(* compares it with the prediction (drift).                                *)
(***************************************************************************)
EXTENDS Shexer
T == "http://www.w3.org/1999/02/22-rdf-syntax-ns#type"
EX == "http://example.org/"
XS == "http://www.w3.org/2001/XMLSchema#"
a == <<"IRI", EX \o "a">>
b == <<"IRI", EX \o "b">>
c == <<"IRI", EX \o "c">>
x == <<"BNode", "_:x">>
y == <<"BNode", "_:y">>
u == <<"IRI", EX \o "u">>
CA == <<"IRI", EX \o "C">>
CB == <<"IRI", EX \o "D">>
s1 == <<XS \o "string", "s1">>
s2 == <<XS \o "string", "s2">>
i1 == <<XS \o "integer", "1">>
l1 == <<"http://www.w3.org/1999/02/22-rdf-syntax-ns#langString", "w@en">>
P1 == EX \o "p"
P2 == EX \o "q"
Subjects == {a, b, c, x, y}
SimU == SetToSeq({<<s, T, k>> : s \in Subjects, k \in {CA, CB}} \cup
                 {<<s, p, o>> : s \in Subjects, p \in {P1, P2}, o \in {a, b, x, u, s1, s2, i1, l1}} \cup
                 {<<u, P1, a>>, <<CA, T, <<"IRI", EX \o "Kind">>>>})
B == {TRUE, FALSE}
SimBase == [instProp |-> T, mode |-> "all", targets |-> <<>>, items |-> <<>>, thr |-> <<0, 1>>, inverse |-> FALSE,
            allCompliant |-> TRUE, keepLess |-> TRUE, discardUseless |-> TRUE, allowOpt |-> TRUE, disableExact |-> FALSE,
            disableOr |-> TRUE, redundantOr |-> FALSE, removeEmpty |-> TRUE, cap |-> 0, ignoreNs |-> <<>>, salt |-> 0,
            decimals |-> -1]
SimCfgs == {[SimBase EXCEPT !.thr = t, !.keepLess = kl, !.discardUseless = du, !.allCompliant = ac, !.allowOpt = ao, !.disableExact = de,
                            !.inverse = iv, !.mode = md[1], !.targets = md[2], !.cap = cp] :
              t \in {<<0, 1>>, <<1, 3>>, <<1, 2>>, <<2, 3>>, <<1, 1>>}, kl \in B, du \in B, ac \in B, ao \in B, de \in B, iv \in B,
              md \in {<<"all", <<>>>>, <<"classes", <<EX \o "C">>>>, <<"classes", <<EX \o "D", EX \o "C">>>>}, cp \in {0, 0, 1, 2}}
(* the simulator draws an action first and a successor second: one generating action per subject keeps the walk adding triples
   (stopping has weight 1 in 7 once three triples are in), so documents spread over 3..14 triples *)
GenS(s) == /\ pc = "gen" /\ Len(doc) < K
           /\ \E i \in 1..Len(U) : /\ U[i][1] = s /\ U[i] \notin ToSet(doc)
                                   /\ doc' = Append(doc, U[i]) /\ last' = i
           /\ UNCHANGED <<cfg, pc, inst, profs, out>>
GenRest == /\ pc = "gen" /\ Len(doc) < K
           /\ \E i \in 1..Len(U) : /\ U[i][1] \notin Subjects /\ U[i] \notin ToSet(doc)
                                   /\ doc' = Append(doc, U[i]) /\ last' = i
           /\ UNCHANGED <<cfg, pc, inst, profs, out>>
SimTrack == Len(doc) >= 3 /\ Track
SimNext == GenS(a) \/ GenS(b) \/ GenS(c) \/ GenS(x) \/ GenS(y) \/ GenRest \/ SimTrack \/ Profile \/ Shex
SimSpec == Init /\ [][SimNext]_vars
Dump == pc = "done" => PrintT(<<"CASE", doc, cfg, IF Crashed THEN "crash" ELSE "ok", OpTie>>)
=============================================================================
