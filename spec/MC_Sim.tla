------------------------------- MODULE MC_Sim -------------------------------
(***************************************************************************)
(* Leg L2 (spec -> code): TLC in simulation mode walks random behaviours   *)
(* of the pipeline state machine over a larger universe (documents of up   *)
(* to K = 14 triples, every configuration of SimCfgs); every finished      *)
(* behaviour prints the document, the configuration and the schema the     *)
(* operational model predicts.  The harness replays each one into the real *)
(* code; Trace_Shexer then judges the real output (property clauses) and   *)
(* compares it with the prediction (drift).                                *)
(***************************************************************************)
EXTENDS Shexer
T == "http://www.w3.org/1999/02/22-rdf-syntax-ns#type"
EX == "http://example.org/"
XS == "http://www.w3.org/2001/XMLSchema#"
a == <<"IRI", EX \o "a">>
b == <<"IRI", EX \o "b">>
c == <<"IRI", EX \o "c">>
x == <<"BNode", "_:x">>
y == <<"BNode", "_:y">>
u == <<"IRI", EX \o "u">>
CA == <<"IRI", EX \o "C">>
CB == <<"IRI", EX \o "D">>
s1 == <<XS \o "string", "s1">>
s2 == <<XS \o "string", "s2">>
i1 == <<XS \o "integer", "1">>
l1 == <<"http://www.w3.org/1999/02/22-rdf-syntax-ns#langString", "w@en">>
P1 == EX \o "p"
P2 == EX \o "q"
Subjects == {a, b, c, x, y}
SimU == SetToSeq({<<s, T, k>> : s \in Subjects, k \in {CA, CB}} \cup
                 {<<s, p, o>> : s \in Subjects, p \in {P1, P2}, o \in {a, b, x, u, s1, s2, i1, l1}} \cup
                 {<<u, P1, a>>, <<CA, T, <<"IRI", EX \o "Kind">>>>})
B == {TRUE, FALSE}
SimBase == [instProp |-> T, mode |-> "all", targets |-> <<>>, items |-> <<>>, thr |-> <<0, 1>>, inverse |-> FALSE,
            allCompliant |-> TRUE, keepLess |-> TRUE, discardUseless |-> TRUE, allowOpt |-> TRUE, disableExact |-> FALSE,
            disableOr |-> TRUE, redundantOr |-> FALSE, removeEmpty |-> TRUE, cap |-> 0, ignoreNs |-> <<>>, salt |-> 0,
            decimals |-> -1]
NoSel == <<"ANY", "">>
FocusSel == <<"FOCUS", "">>
ItemNode(l, n) == [label |-> EX \o "shapes/" \o l, kind |-> "node", node |-> n, ps |-> NoSel, pp |-> "", po |-> NoSel]
ItemPat(l, s_, p_, o_) == [label |-> EX \o "shapes/" \o l, kind |-> "pattern", node |-> <<"IRI", "">>, ps |-> s_, pp |-> p_, po |-> o_]
SimModes == {<<"all", <<>>, <<>>>>, <<"classes", <<EX \o "C">>, <<>>>>, <<"classes", <<EX \o "D", EX \o "C">>, <<>>>>,
             \* shape maps: node selectors, a triple pattern with the focus as subject / as object, two labels sharing a node
             <<"shapemap", <<>>, <<ItemNode("L0", a), ItemNode("L0", b), ItemNode("L1", c)>>>>,
             <<"shapemap", <<>>, <<ItemPat("L0", FocusSel, P1, NoSel), ItemNode("L1", a)>>>>,
             <<"shapemap", <<>>, <<ItemPat("L0", NoSel, P2, FocusSel), ItemPat("L1", FocusSel, T, CA)>>>>,
             \* one label given by several entries whose selections overlap, adjacent and not (S, T, S)
             <<"shapemap", <<>>, <<ItemPat("L0", FocusSel, P1, NoSel), ItemNode("L1", a), ItemPat("L0", FocusSel, T, CA), ItemNode("L0", a)>>>>,
             <<"mixed", <<>>, <<ItemNode("L0", a), ItemNode("L0", u), ItemPat("L0", FocusSel, P2, NoSel)>>>>}
SimCfgs == {[SimBase EXCEPT !.thr = t, !.keepLess = kl, !.discardUseless = du, !.allCompliant = ac, !.allowOpt = ao, !.disableExact = de,
                            !.inverse = iv, !.mode = md[1], !.targets = md[2], !.items = md[3], !.cap = cp,
                            !.disableOr = ors[1], !.redundantOr = ors[2], !.removeEmpty = re] :
              t \in {<<0, 1>>, <<1, 3>>, <<1, 2>>, <<2, 3>>, <<1, 1>>}, kl \in B, du \in B, ac \in B, ao \in B, de \in B, iv \in B,
              md \in SimModes, cp \in {0, 0, 1, 2}, ors \in {<<TRUE, FALSE>>, <<TRUE, FALSE>>, <<FALSE, FALSE>>, <<FALSE, TRUE>>}, re \in {TRUE, TRUE, FALSE}}
(* the simulator draws an action first and a successor second: one generating action per subject keeps the walk adding triples
   (stopping has weight 1 in 7 once three triples are in), so documents spread over 3..14 triples *)
\* selectors are solved on a second parse that renames blank nodes (known finding KF.C10.bnodeselector): shape-map behaviours
\* are generated over IRI nodes
Usable(t) == cfg.mode \in {"shapemap", "mixed"} => (t[1][1] # "BNode" /\ t[3][1] # "BNode")
GenS(s) == /\ pc = "gen" /\ Len(doc) < K
           /\ \E i \in 1..Len(U) : /\ U[i][1] = s /\ U[i] \notin ToSet(doc) /\ Usable(U[i])
                                   /\ doc' = Append(doc, U[i]) /\ last' = i
           /\ UNCHANGED <<cfg, pc, inst, profs, out>>
GenRest == /\ pc = "gen" /\ Len(doc) < K
           /\ \E i \in 1..Len(U) : /\ U[i][1] \notin Subjects /\ U[i] \notin ToSet(doc)
                                   /\ doc' = Append(doc, U[i]) /\ last' = i
           /\ UNCHANGED <<cfg, pc, inst, profs, out>>
SimTrack == Len(doc) >= 3 /\ Track
SimNext == GenS(a) \/ GenS(b) \/ GenS(c) \/ GenS(x) \/ GenS(y) \/ GenRest \/ SimTrack \/ Profile \/ Shex
SimSpec == Init /\ [][SimNext]_vars
Dump == pc = "done" => PrintT(<<"CASE", doc, cfg, IF Crashed THEN "crash" ELSE "ok", OpTie>>)
=============================================================================
