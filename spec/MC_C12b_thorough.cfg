SPECIFICATION Spec
CONSTANTS
  U <- MC_U
  K = 4
  CfgSet <- MC_CfgC02
  Perm = FALSE
INVARIANT InvC12
