------------------------------ MODULE MC_MinIri ------------------------------
(* L1 for C17: for every sequence of 1..N instance IRIs (words of length <= L over a small alphabet containing the           *)
(* separators), in every order, the profiler's fold + cut-back equals the declarative stem.                                  *)
EXTENDS MinIri
CONSTANTS Alphabet, L, N
VARIABLES seq, cur, pc
vars == <<seq, cur, pc>>
Init == seq = <<>> /\ cur = <<>> /\ pc = "word"
Grow == pc = "word" /\ Len(seq) < N /\ Len(cur) < L /\ \E a \in Alphabet : cur' = Append(cur, a) /\ UNCHANGED <<seq, pc>>
Push == pc = "word" /\ cur # <<>> /\ Len(seq) < N /\ seq' = Append(seq, cur) /\ cur' = <<>> /\ UNCHANGED pc
Stop == pc = "word" /\ cur = <<>> /\ seq # <<>> /\ pc' = "done" /\ UNCHANGED <<seq, cur>>
Next == Grow \/ Push \/ Stop \/ (pc = "done" /\ UNCHANGED vars)
Spec == Init /\ [][Next]_vars
StemAgrees == pc = "done" => StemImpl(seq) = StemSpec({seq[i] : i \in 1..Len(seq)})
=============================================================================
