SPECIFICATION Spec
CONSTANTS
  L = 3
  Layouts = "all"
INVARIANT GrammarLemma
INVARIANT C06Design
