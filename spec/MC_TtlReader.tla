---------------------------- MODULE MC_TtlReader ----------------------------
(* L1 for C07: every layout (over GapSet) of the skeleton document                                        *)
(*      S P O ; P2 O , O . S2 P O .                                                                        *)
(* for every object form and subject / predicate form: the transliterated reader yields exactly the        *)
(* triples a standard Turtle parser produces.                                                              *)
EXTENDS TtlReader
CONSTANTS GapSet, ObjForms, SubjForms
VARIABLES of, sf, gaps, pc
vars == <<of, sf, gaps, pc>>
P2(s) == CASE s = "s.pn" -> "p.a" [] s = "s.abs" -> "p.abs" [] s = "s.rel" -> "p.type" [] OTHER -> "p.pn"
S2(s) == CASE s = "s.pn" -> "s.bn" [] s = "s.abs" -> "s.rel" [] s = "s.rel" -> "s.pn" [] s = "s.https" -> "s.https" [] OTHER -> "s.abs"
Toks == <<sf, "p.pn", of, ";", P2(sf), IF P2(sf) \in {"p.a", "p.type"} THEN "o.cls" ELSE of, ",", "o.pn", ".", S2(sf), "p.abs", of, ".">>
NT == 13
Init == /\ of \in ObjForms /\ sf \in SubjForms /\ pc = 1
        /\ gaps = [i \in 1..NT |-> IF i = NT THEN "nl" ELSE "sp"]
\* flip one gap at a time: the whole hypercube GapSet^(NT-1) is reachable
\* gaps are decided left to right: position pos is the next undecided gap
Flip == /\ pc <= NT - 1
        /\ \E g \in GapSet : gaps' = [gaps EXCEPT ![pc] = g]
        /\ pc' = pc + 1
        /\ UNCHANGED <<of, sf>>
Next == Flip \/ (pc = NT /\ UNCHANGED vars)
Spec == Init /\ [][Next]_vars
Result == ImplReadBody(RenderLines(Toks, gaps))
GeneratorLemma == pc = NT => WellFormed(Toks, 1, "S")
C07Design == pc = NT => (Result.err = "" /\ Result.out = Expected(Toks))
=============================================================================
