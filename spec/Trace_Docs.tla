----------------------------- MODULE Trace_Docs -----------------------------
(* L3 for C05 / C11: each trace holds the token stream of an emitted ShExC document, the projection of the SHACL document  *)
(* emitted for the same extraction, and both abstract schemas.                                                              *)
EXTENDS Integers, Sequences, FiniteSets, TLC, Json, IOUtils
Traces == JsonDeserialize(IOEnv.TRACE_FILE)
VARIABLE tid
Tr == Traces[tid]
D == INSTANCE ShExCDoc
E == INSTANCE SchemaEquiv
SetOf(q) == {q[i] : i \in 1..Len(q)}
Shex == {[label |-> s.label, cls |-> s.cls, tcs |-> [i \in 1..Len(s.tcs) |-> [inv |-> s.tcs[i].inv, p |-> s.tcs[i].p, k |-> s.tcs[i].k, card |-> s.tcs[i].card]]] : s \in SetOf(Tr.shex)}
Shacl == {[iri |-> n.iri, cls |-> n.cls,
           props |-> [i \in 1..Len(n.props) |-> [inv |-> n.props[i].inv, p |-> n.props[i].p, res |-> <<n.props[i].res[1], n.props[i].res[2]>>,
                                                min |-> n.props[i].min, max |-> n.props[i].max]]] : n \in SetOf(Tr.shacl.shapes)}
Want(c) == c \in SetOf(Tr.want)
Clauses ==
  (IF Want("C05") /\ Tr.hasShex THEN D!Clauses(Tr.tokens, Tr.lexerr) ELSE {}) \cup
  (IF Want("C05") /\ Tr.hasShacl THEN E!ShaclClauses(Tr.shacl) ELSE {}) \cup
  (IF Want("C11") /\ Tr.hasShex /\ Tr.hasShacl /\ Tr.shacl.parsed THEN E!EquivClauses(Shex, Shacl, Tr.instProp) ELSE {})
Init == tid \in 1..Len(Traces)
Next == UNCHANGED tid
Spec == Init /\ [][Next]_tid
Report == PrintT(<<"VERDICT", Tr.id, Clauses, [tokens |-> Len(Tr.tokens)]>>)
=============================================================================
