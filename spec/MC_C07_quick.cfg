SPECIFICATION Spec
CONSTANTS
  GapSet = {"sp", "nl"}
  ObjForms = {"o.pn", "o.str", "o.dtp", "o.dtg", "o.bs", "o.lang", "o.spec", "o.int", "o.pint", "o.dot", "o.https"}
  SubjForms = {"s.bs"}
INVARIANT GeneratorLemma
INVARIANT C07Design
