SPECIFICATION Spec
CONSTANTS
  GapSet = {"sp", "nl"}
  ObjForms = {"o.pn", "o.str", "o.dtp", "o.dtg", "o.lang", "o.spec", "o.int", "o.https"}
  SubjForms = {"s.rel"}
INVARIANT GeneratorLemma
INVARIANT C07Design
