SPECIFICATION IndSpec
CONSTANTS
  Nodes = {"a", "b"}
  TYPE = "type"
  Props = {"p"}
  MaxCalls = 1
  MaxTriples = 8
  WithClassCalls = FALSE
INVARIANT IndInv
INVARIANT Coherent
INVARIANT Cheaper
INVARIANT LocalSound
CONSTRAINT OneStep
CHECK_DEADLOCK FALSE
