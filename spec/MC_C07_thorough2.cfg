SPECIFICATION Spec
CONSTANTS
  GapSet = {"sp", "nl", "cmt", "tab"}
  ObjForms = {"o.spec", "o.lang"}
  SubjForms = {"s.pn"}
INVARIANT GeneratorLemma
INVARIANT C07Design
