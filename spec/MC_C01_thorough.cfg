SPECIFICATION Spec
CONSTANTS
  U <- MC_U
  K = 4
  CfgSet <- MC_CfgC01
  Perm = FALSE
INVARIANT InvProfile
INVARIANT InvC01
