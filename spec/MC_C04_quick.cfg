SPECIFICATION Spec
CONSTANTS
  U <- MC_Usmall
  K = 3
  CfgSet <- MC_CfgC04
  Perm = FALSE
INVARIANT InvNoCrash
PROPERTY Terminates
