------------------------------- MODULE Config -------------------------------
(***************************************************************************)
(* C20: which constructor / call arguments are contradictory or            *)
(* unsupported.  Valid / ValidCall are the reference predicates (the       *)
(* documented contract); Ctor / Call transliterate the checks the code     *)
(* performs, in order, with what each raises.  An argument vector is       *)
(*  [src : set of given graph sources, tgt : set of given target args,     *)
(*   allc, comp, fmt, ex, disableOr, redundantOr]                          *)
(***************************************************************************)
EXTENDS Integers, FiniteSets, TLC
Sources == {"graph_file_input", "graph_list_of_files_input", "raw_graph", "url_graph_input", "list_of_url_input",
            "url_endpoint", "rdflib_graph"}
RemoteSources == {"url_graph_input", "list_of_url_input", "url_endpoint"}
TargetArgs == {"target_classes", "file_target_classes", "shape_map_raw", "shape_map_file"}
ShapeMapArgs == {"shape_map_raw", "shape_map_file"}
Formats == {"nt", "tsv_spo", "n3", "turtle", "xml", "json-ld", "turtle_iter"}
Compressions == {"none", "gz", "zip", "xz"}
Examples == {"none", "shape", "cons", "all"}

\* ---- the contract
TargetsOK(a) == IF ~a.allc THEN Cardinality(a.tgt) = 1
                ELSE a.tgt \cap {"target_classes", "file_target_classes"} = {} /\ Cardinality(a.tgt \cap ShapeMapArgs) <= 1
Valid(a) == /\ Cardinality(a.src) = 1
            /\ TargetsOK(a)
            /\ a.fmt \in Formats /\ a.comp \in Compressions /\ a.ex \in Examples
            /\ ~(a.comp # "none" /\ a.src \cap RemoteSources # {})
            /\ ~(a.disableOr /\ a.redundantOr)
ValidCall(c) == /\ c.thrnum >= 0 /\ c.thrnum <= c.thrden          \* threshold = thrnum / thrden, thrden > 0
                /\ c.ofmt \in {"ShEx", "Shacl"}
                /\ (c.string \/ c.file \/ c.uml)

\* ---- the constructor as coded: the first failing check decides
\* the selector graph of a shape map is built from raw_graph / graph_file_input / rdflib_graph / the endpoint only
SelectorGraphOK(a) == a.src \cap {"raw_graph", "graph_file_input", "rdflib_graph", "url_endpoint"} # {}
Ctor(a) ==
  IF Cardinality(a.src) # 1 THEN "ValueError"
  ELSE IF ~a.allc /\ Cardinality(a.tgt) # 1 THEN "ValueError"
  ELSE IF a.allc /\ a.tgt \cap {"target_classes", "file_target_classes"} # {} THEN "ValueError"
  ELSE IF a.disableOr /\ a.redundantOr THEN "ValueError"
  ELSE IF a.fmt \notin Formats THEN "ValueError"
  ELSE IF a.comp \notin Compressions THEN "ValueError"
  ELSE IF a.comp # "none" /\ a.src \cap RemoteSources # {} THEN "ValueError"
  ELSE IF a.ex \notin Examples THEN "ValueError"
  ELSE IF a.tgt \cap ShapeMapArgs = {} THEN "accept"
  ELSE IF ~SelectorGraphOK(a) THEN "ValueError"                 \* rdflib: "exactly one of source, location, file or data"
  ELSE IF a.comp # "none" /\ a.src = {"graph_file_input"} THEN "Other"   \* rdflib reads the compressed bytes: UnicodeDecodeError
  ELSE IF Cardinality(a.tgt \cap ShapeMapArgs) = 2 THEN "ValueError"   \* shape-map parser: exactly one kind of input
  ELSE "accept"
Call(c) == IF ~(c.string \/ c.file \/ c.uml) THEN "ValueError"
           ELSE IF c.ofmt \notin {"ShEx", "Shacl"} THEN "ValueError"
           ELSE IF c.thrnum < 0 \/ c.thrnum > c.thrden THEN "ValueError"
           ELSE "ok"

\* ---- verdict clauses for an observed constructor outcome ("accept", "ValueError", "Other") and, when the
\* constructor accepted and the source is local, the outcome of a following shex_graph ("ok", "ValueError", "Other", "skipped")
KFSelectorGraph(a) == Valid(a) /\ a.tgt \cap ShapeMapArgs # {} /\ ~SelectorGraphOK(a)
\* the selector graph is parsed by rdflib straight from the file: a compressed file is not uncompressed first
KFCompressedSelectorGraph(a) == Cardinality(a.src) = 1 /\ a.tgt \cap ShapeMapArgs # {} /\ a.comp \in Compressions \ {"none"} /\ a.src = {"graph_file_input"}
CtorClauses(a, ctor, call) ==
  (IF ctor = "Other" THEN (IF KFCompressedSelectorGraph(a) THEN {"KF.C20.compressedselectorgraph"} ELSE {"C20.wrong_exception"}) ELSE {}) \cup
  (IF Valid(a) /\ ctor = "ValueError" THEN (IF KFSelectorGraph(a) THEN {"KF.C20.selectorgraph"} ELSE {"C20.rejects_valid"}) ELSE {}) \cup
  (IF ~Valid(a) /\ ctor = "accept" THEN {"C20.accepts_invalid"} ELSE {}) \cup
  (IF Valid(a) /\ ctor = "accept" /\ call \notin {"ok", "skipped"} THEN {"C20.deferred"} ELSE {})
CallClauses(c, outcome) ==
  (IF ValidCall(c) /\ outcome # "ok" THEN {"C20.call.rejects_valid"} ELSE {}) \cup
  (IF ~ValidCall(c) /\ outcome = "ok" THEN {"C20.call.accepts_invalid"} ELSE {}) \cup
  (IF ~ValidCall(c) /\ outcome = "Other" THEN {"C20.call.wrong_exception"} ELSE {})
=============================================================================
