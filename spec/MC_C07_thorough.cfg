SPECIFICATION Spec
CONSTANTS
  GapSet = {"sp", "nl"}
  ObjForms = {"o.pn", "o.abs", "o.rel", "o.bn", "o.int", "o.pint", "o.nint", "o.dot", "o.str", "o.xsd", "o.dti", "o.dtp", "o.dtg", "o.bs", "o.lang", "o.spec", "o.esc", "o.https"}
  SubjForms = {"s.pn", "s.abs", "s.rel", "s.bn", "s.https", "s.bs"}
INVARIANT GeneratorLemma
INVARIANT C07Design
