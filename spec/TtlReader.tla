------------------------------ MODULE TtlReader ------------------------------
(***************************************************************************)
(* The streaming Turtle reader (property C07).                             *)
(*  (a) dialect + layout generator: a document is a sequence of tokens     *)
(*      (from a fixed vocabulary that covers every token form of the       *)
(*      dialect) grouped with ';' / ',' / '.', and a layout: what stands   *)
(*      in each gap between two tokens (blank, two blanks, tab, line       *)
(*      break, trailing comment + line break, comment line).               *)
(*  (b) the reader state machine exactly as coded: state, tmpS, tmpP, tmpO *)
(*      (c) transliteration of _clean_line, _remove_comments_if_needed,    *)
(*      _next_line_token, _parse_elem, _parse_cornered_element and of the  *)
(*      literal typing shared with the N-Triples reader.                   *)
(* Text is a sequence of one-character strings; indices 0-based.           *)
(***************************************************************************)
EXTENDS NtReader

\* ---------------------------------------------------------------- (a) vocabulary
EXNS == "http://ex.org/"
BASE == "http://b.org/d/"
XSDNS == "http://www.w3.org/2001/XMLSchema#"
RDFTYPE == "http://www.w3.org/1999/02/22-rdf-syntax-ns#type"
\* token id -> text
TokText(id) == CASE id = "s.pn" -> "ex:a"           [] id = "s.abs" -> "<http://x.org/s>"   [] id = "s.rel" -> "<r1>"
                 [] id = "s.bn" -> "_:b1"
                 [] id = "p.pn" -> "ex:p"           [] id = "p.a" -> "a"                    [] id = "p.abs" -> "<http://x.org/q>"
                 [] id = "p.type" -> "rdf:type"
                 [] id = "o.pn" -> "ex:b"           [] id = "o.abs" -> "<http://x.org/o#f>" [] id = "o.rel" -> "<r2>"
                 [] id = "o.bn" -> "_:b2"           [] id = "o.int" -> "57"
                 [] id = "o.dot" -> "rel:x"          \* a prefix whose namespace ends in a dot (a version: .../v1.)
                 [] id = "o.pint" -> "+8"            [] id = "o.nint" -> "-30"       \* INTEGER ::= [+-]? [0-9]+
                 [] id = "o.str" -> "\"x y\""       [] id = "o.xsd" -> "\"5\"^^xsd:int"
                 [] id = "o.dti" -> "\"v\"^^<http://x.org/dt>"  [] id = "o.dtp" -> "\"v\"^^ex:dt"
                 [] id = "o.dtg" -> "\"4\"^^geo:deg"      \* a label sheXer has a built-in namespace for, bound to another one by the document
                 [] id = "o.lang" -> "\"hola\"@es"
                 [] id = "o.spec" -> "\"a # b ; c , d . e\""    [] id = "o.esc" -> "\"q\\\"u\\\\\""
                 [] id = "o.cls" -> "ex:C"
                 [] id = "o.https" -> "<https://s.org/x>"  [] id = "s.https" -> "<https://s.org/y#z>"  [] id = "o.urn" -> "<urn:x:1>"
                 [] id = "s.bs" -> "base:s1"  [] id = "p.bs" -> "prefixes:p1"  [] id = "o.bs" -> "base:o1"   \* labels that begin like a directive keyword
                 [] id = "@re" -> "@prefix ex: <http://ex2.org/> ."      \* a directive in the middle of the document re-binds the label
                 [] OTHER -> id                      \* punctuation ; , .
\* token id -> the RDF term a standard Turtle parser produces (objects: kind + IRI / label, literals: datatype)
TokTerm(id) == CASE id = "s.pn" -> <<"IRI", EXNS \o "a">>   [] id = "s.abs" -> <<"IRI", "http://x.org/s">>
                 [] id = "s.rel" -> <<"IRI", BASE \o "r1">>  [] id = "s.bn" -> <<"BNode", "_:b1">>
                 [] id = "p.pn" -> <<"IRI", EXNS \o "p">>    [] id = "p.a" -> <<"IRI", RDFTYPE>>
                 [] id = "p.abs" -> <<"IRI", "http://x.org/q">>  [] id = "p.type" -> <<"IRI", RDFTYPE>>
                 [] id = "o.pn" -> <<"IRI", EXNS \o "b">>    [] id = "o.abs" -> <<"IRI", "http://x.org/o#f">>
                 [] id = "o.rel" -> <<"IRI", BASE \o "r2">>  [] id = "o.bn" -> <<"BNode", "_:b2">>
                 [] id = "o.int" -> <<XSDNS \o "integer", "">>
                 [] id = "o.dot" -> <<"IRI", "http://r.org/v1.x">>
                 [] id = "o.pint" -> <<XSDNS \o "integer", "">>  [] id = "o.nint" -> <<XSDNS \o "integer", "">>
                 [] id = "o.str" -> <<XSD_STRING, "">>       [] id = "o.xsd" -> <<XSDNS \o "int", "">>
                 [] id = "o.dti" -> <<"http://x.org/dt", "">> [] id = "o.dtp" -> <<EXNS \o "dt", "">>
                 [] id = "o.dtg" -> <<"http://www.w3.org/2003/01/geo/wgs84_pos#deg", "">>
                 [] id = "o.lang" -> <<LANG_STRING, "">>
                 [] id = "o.spec" -> <<XSD_STRING, "">>      [] id = "o.esc" -> <<XSD_STRING, "">>
                 [] id = "o.cls" -> <<"IRI", EXNS \o "C">>
                 [] id = "o.https" -> <<"IRI", "https://s.org/x">>  [] id = "s.https" -> <<"IRI", "https://s.org/y#z">>
                 [] id = "s.bs" -> <<"IRI", "http://bb.org/s1">>  [] id = "p.bs" -> <<"IRI", "http://pp.org/p1">>  [] id = "o.bs" -> <<"IRI", "http://bb.org/o1">>
                 [] id = "o.urn" -> <<"IRI", BASE \o "urn:x:1">>      \* documented divergence: only http(s) IRIs count as absolute
SubjToks == {"s.pn", "s.abs", "s.rel", "s.bn", "s.https", "s.bs"}
PredToks == {"p.pn", "p.a", "p.abs", "p.type", "p.bs"}
ObjToks == {"o.pn", "o.abs", "o.rel", "o.bn", "o.int", "o.pint", "o.nint", "o.dot", "o.str", "o.xsd", "o.dti", "o.dtp", "o.dtg", "o.bs", "o.lang", "o.spec", "o.esc", "o.cls", "o.https"}
Punct == {";", ",", "."}

\* abstract triples of a token sequence S P O (, O)* (; P O (, O)*)* . ...   (what a standard parser yields)
\* a prefix label means the namespace of the LAST directive that bound it before the token ("@re" re-binds ex: to EX2NS)
EX2NS == "http://ex2.org/"
ReNs(str, ns) == IF Len(str) >= Len(EXNS) /\ SubSeq(str, 1, Len(EXNS)) = EXNS THEN ns \o SubSeq(str, Len(EXNS) + 1, Len(str)) ELSE str
Rebound(term, ns) == <<ReNs(term[1], ns), ReNs(term[2], ns)>>
RECURSIVE AbsTriplesNs(_, _, _, _, _, _)
AbsTriplesNs(toks, i, s, p, acc, ns) ==
  IF i > Len(toks) THEN acc
  ELSE LET t == toks[i] IN
       IF t \in SubjToks THEN AbsTriplesNs(toks, i + 1, t, p, acc, ns)
       ELSE IF t \in PredToks THEN AbsTriplesNs(toks, i + 1, s, t, acc, ns)
       ELSE IF t \in ObjToks THEN AbsTriplesNs(toks, i + 1, s, p,
                                        Append(acc, <<Rebound(TokTerm(s), ns), Rebound(TokTerm(p), ns)[2], Rebound(TokTerm(t), ns)>>), ns)
       ELSE IF t = "@re" THEN AbsTriplesNs(toks, i + 1, s, p, acc, EX2NS)
       ELSE AbsTriplesNs(toks, i + 1, s, p, acc, ns)
Expected(toks) == AbsTriplesNs(toks, 1, "", "", <<>>, EXNS)
\* well-formed token sequences of the dialect
RECURSIVE WellFormed(_, _, _)
WellFormed(toks, i, st) ==      \* st: what is expected next: "S", "P", "O", "X" (punctuation)
  IF i > Len(toks) THEN st = "S"
  ELSE LET t == toks[i] IN
       CASE st = "S" -> \/ t \in SubjToks /\ WellFormed(toks, i + 1, "P")
                        \/ t = "@re" /\ WellFormed(toks, i + 1, "S")          \* a directive stands between statements
         [] st = "P" -> t \in PredToks /\ WellFormed(toks, i + 1, "O")
         [] st = "O" -> t \in ObjToks /\ WellFormed(toks, i + 1, "X")
         [] st = "X" -> \/ t = "," /\ WellFormed(toks, i + 1, "O")
                        \/ t = ";" /\ WellFormed(toks, i + 1, "P")
                        \/ t = "." /\ WellFormed(toks, i + 1, "S")

\* layout: gap[i] stands between token i and token i+1 (gap[Len] after the last token)
Gaps == {"sp", "sp2", "tab", "nl", "nlsp", "cmt", "tcmt", "cline"}
HeaderLines == << Chars("@prefix ex: <http://ex.org/> ."), Chars("@prefix xsd: <http://www.w3.org/2001/XMLSchema#> ."),
                  Chars("@prefix rdf: <http://www.w3.org/1999/02/22-rdf-syntax-ns#> ."),
                  Chars("@prefix geo: <http://www.w3.org/2003/01/geo/wgs84_pos#> ."), Chars("@prefix base: <http://bb.org/> ."),
                  Chars("@prefix prefixes: <http://pp.org/> ."), Chars("@prefix rel: <http://r.org/v1.> ."),
                  Chars("@base <http://b.org/d/> .") >>
CommentTail == <<" ", "#", " ", "c", " ", "\"", " ", ".">>          \* trailing comment (with a quote and a dot inside)
TabCommentTail == <<"\t", "#", " ", "c", " ", ";">>                   \* a trailing comment set off by a TAB
CommentLine == <<"#", " ", "l", "i", "n", "e", " ", ";">>           \* a whole comment line
\* the document as the sequence of its lines (the line reader splits on line breaks and skips blank lines)
RECURSIVE RenderLinesR(_, _, _, _, _)
RenderLinesR(toks, gaps, i, cur, acc) ==
  IF i > Len(toks) THEN (IF cur = <<>> THEN acc ELSE Append(acc, cur))
  ELSE LET line == cur \o Chars(TokText(toks[i]))
           g == gaps[i]
       IN CASE g = "sp" -> RenderLinesR(toks, gaps, i + 1, line \o <<" ">>, acc)
            [] g = "sp2" -> RenderLinesR(toks, gaps, i + 1, line \o <<" ", " ">>, acc)
            [] g = "tab" -> RenderLinesR(toks, gaps, i + 1, line \o <<"\t">>, acc)
            [] g = "nl" -> RenderLinesR(toks, gaps, i + 1, <<>>, Append(acc, line))
            [] g = "nlsp" -> RenderLinesR(toks, gaps, i + 1, <<" ", " ">>, Append(acc, line))
            [] g = "cmt" -> RenderLinesR(toks, gaps, i + 1, <<>>, Append(acc, line \o CommentTail))
            [] g = "tcmt" -> RenderLinesR(toks, gaps, i + 1, <<>>, Append(acc, line \o TabCommentTail))
            [] g = "cline" -> RenderLinesR(toks, gaps, i + 1, <<>>, Append(Append(acc, line), CommentLine))
RenderLines(toks, gaps) == RenderLinesR(toks, gaps, 1, <<>>, <<>>)

\* ---------------------------------------------------------------- (c) line cleaning and tokenizer, as coded
\* _clean_line: [\r\n\t] -> blank, runs of blanks -> one blank, strip, then comment removal when " #" occurs
RECURSIVE Squeeze(_, _)
Squeeze(s, prevBlank) == IF s = <<>> THEN <<>>
                         ELSE LET ch == IF Head(s) \in {"\t", "\r", "\n"} THEN " " ELSE Head(s) IN
                              IF ch = " " /\ prevBlank THEN Squeeze(Tail(s), TRUE)
                              ELSE <<ch>> \o Squeeze(Tail(s), ch = " ")
\* _remove_comments_if_needed: cut at the first " #" that is outside every quoted literal
RECURSIVE CommentStart(_, _, _)
CommentStart(s, i, inStr) ==
  IF i >= Len(s) THEN -1
  ELSE LET ch == At(s, i) IN
       IF inStr THEN (IF ch = "\\" THEN CommentStart(s, i + 2, TRUE)
                      ELSE IF ch = "\"" THEN CommentStart(s, i + 1, FALSE) ELSE CommentStart(s, i + 1, TRUE))
       ELSE IF ch = "\"" THEN CommentStart(s, i + 1, TRUE)
       ELSE IF ch = " " /\ At(s, i + 1) = "#" THEN i
       ELSE CommentStart(s, i + 1, FALSE)
CleanLine(line) == LET sq == Strip(Squeeze(line, FALSE))
                       c == CommentStart(sq, 0, FALSE)
                   IN IF c = -1 THEN sq ELSE Slice(sq, 0, c)
\* _find_next_blank / _find_next_unescaped_quotes / _find_next_quoted_literal_ending
NextBlank(s, start) == LET p == FindCh(s, " ", start) IN IF p = -1 THEN Len(s) ELSE p
LitEnding(s, start) ==        \* [end, err]
  LET q == ClosingQuotes(Slice(s, start, Len(s)), 1) IN
  IF q = -1 THEN [end |-> 0, err |-> "ValueError"]
  ELSE LET nq == q + start IN
       IF nq + 1 >= Len(s) \/ At(s, nq + 1) = " " THEN [end |-> nq, err |-> ""]
       ELSE IF At(s, nq + 1) \in {"^", "@"} THEN [end |-> NextBlank(s, nq) - 1, err |-> ""]
       ELSE [end |-> 0, err |-> "ValueError"]
\* _parse_cornered_element with @base
Cornered(tok, base) ==
  IF base = "" THEN tok
  ELSE IF At(tok, 1) \in {"/", "#"} THEN Chars("<" \o base) \o Slice(tok, 2, Len(tok))
  ELSE IF ~StartsAt(tok, Chars("http"), 1) THEN Chars("<" \o base) \o Slice(tok, 1, Len(tok))
  ELSE tok
\* _next_line_token : [tok, next, err] ; tok = <<>> and next = -1 at the end of the line
RECURSIVE SkipBlanks(_, _)
SkipBlanks(s, i) == IF i < Len(s) /\ At(s, i) = " " THEN SkipBlanks(s, i + 1) ELSE i
NextTok(s, start0, base) ==
  LET start == SkipBlanks(s, start0) IN
  IF start >= Len(s) THEN [tok |-> <<>>, next |-> -1, err |-> ""]
  ELSE IF At(s, start) \in {",", ";", "."} THEN [tok |-> <<At(s, start)>>, next |-> start + 1, err |-> ""]
  ELSE IF At(s, start) = "<" THEN LET e == FindCh(s, ">", start) IN
        [tok |-> Cornered(Slice(s, start, e + 1), base), next |-> e + 1, err |-> IF e = -1 THEN "unclosed" ELSE ""]
  ELSE IF At(s, start) = "\"" THEN LET r == LitEnding(s, start) IN
        IF r.err # "" THEN [tok |-> <<>>, next |-> -1, err |-> r.err]
        ELSE [tok |-> Slice(s, start, r.end + 1), next |-> r.end + 1, err |-> ""]
  ELSE LET e == NextBlank(s, start) IN [tok |-> Slice(s, start, e), next |-> e + 1, err |-> ""]
\* _parse_elem: prefixes as a function prefix -> namespace
PrefixOf(tok) == LET c == FindCh(tok, ":", 0) IN IF c = -1 THEN "" ELSE JoinChars(Slice(tok, 0, c))
AfterColon(tok) == Slice(tok, FindCh(tok, ":", 0) + 1, Len(tok))
\* float(tok) succeeds (on the vocabulary: an optional sign and digits)
IsNumber(tok) == LET d == IF tok # <<>> /\ tok[1] \in {"+", "-"} THEN Tail(tok) ELSE tok
                 IN d # <<>> /\ \A i \in 1..Len(d) : IsNumeric(d[i])
ExpandDatatype(tok, prefixes) ==     \* "lex"^^pre:local -> "lex"^^<ns local>
  LET q == ClosingQuotes(tok, 1)
      suf == Slice(tok, q + 1, Len(tok))
      ty == Slice(suf, 2, Len(suf))
  IN IF StartsAt(suf, <<"^", "^">>, 0) /\ At(ty, 0) # "<" /\ PrefixOf(ty) \in DOMAIN prefixes
     THEN Slice(tok, 0, q + 1) \o <<"^", "^", "<">> \o Chars(prefixes[PrefixOf(ty)]) \o AfterColon(ty) \o <<">">>
     ELSE tok
ParseElem(tok, prefixes, base) ==    \* [val, err]
  IF At(tok, 0) = "<" THEN [val |-> Cornered(tok, base), err |-> ""]
  ELSE IF tok = <<"a">> \/ tok = Chars("rdf:type") THEN [val |-> Chars("<" \o RDFTYPE \o ">"), err |-> ""]
  ELSE IF At(tok, 0) = "\"" THEN [val |-> ExpandDatatype(tok, prefixes), err |-> ""]
  ELSE IF FindCh(tok, ":", 0) # -1 THEN
       IF StartsAt(tok, <<"_", ":">>, 0) THEN [val |-> tok, err |-> ""]
       ELSE IF PrefixOf(tok) \in DOMAIN prefixes THEN [val |-> Chars("<" \o prefixes[PrefixOf(tok)]) \o AfterColon(tok) \o <<">">>, err |-> ""]
       ELSE [val |-> <<>>, err |-> "ValueError"]
  ELSE IF IsNumber(tok) THEN [val |-> tok, err |-> ""]
  ELSE [val |-> <<>>, err |-> "TypeError"]

\* ---------------------------------------------------------------- (b) reader state machine
WS == 0  WP == 1  WO == 2  NW == 4
Init0 == [st |-> WS, s |-> <<>>, p |-> <<>>, o |-> <<>>, out |-> <<>>, err |-> "", prefixes |-> <<>>, base |-> ""]
\* tune_subj / tune_prop / tune_token on the raw triple
TuneS(v) == IF At(v, 0) = "<" THEN <<"IRI", JoinChars(Slice(v, 1, Len(v) - 1))>>
            ELSE IF StartsAt(v, <<"_", ":">>, 0) THEN <<"BNode", JoinChars(v)>> ELSE <<"ValueError", "">>
\* (decide_literal_type prepends @base to a datatype written <relative>; the vocabulary has absolute datatypes only)
TuneO(v, base) ==
  IF At(v, 0) = "<" THEN <<"IRI", JoinChars(Slice(v, 1, Len(v) - 1))>>
  ELSE IF At(v, 0) = "\"" THEN <<ImplLiteralType(v), "">>
  ELSE IF StartsAt(v, <<"_", ":">>, 0) THEN <<"BNode", JoinChars(v)>>
  ELSE IF IsNumber(v) THEN <<XSDNS \o "integer", "">>
  ELSE <<XSD_STRING, "">>
Yield(state) == [state EXCEPT !.out = Append(@, <<TuneS(state.s), JoinChars(Slice(state.p, 1, Len(state.p) - 1)), TuneO(state.o, state.base)>>)]
StepTok(state, tok) ==
  IF tok = <<",">> THEN [Yield(state) EXCEPT !.st = WO]
  ELSE IF tok = <<";">> THEN [Yield(state) EXCEPT !.st = WP]
  ELSE IF tok = <<".">> THEN [Yield(state) EXCEPT !.st = WS]
  ELSE IF state.st = NW THEN [state EXCEPT !.err = "ValueError:unexpected token"]
  ELSE LET r == ParseElem(tok, state.prefixes, state.base) IN
       IF r.err # "" THEN [state EXCEPT !.err = r.err]
       ELSE IF state.st = WS THEN [state EXCEPT !.s = r.val, !.st = WP]
       ELSE IF state.st = WP THEN [state EXCEPT !.p = r.val, !.st = WO]
       ELSE [state EXCEPT !.o = r.val, !.st = NW]
RECURSIVE ProcTokens(_, _, _, _)
ProcTokens(line, idx, state, fuel) ==
  IF state.err # "" \/ fuel = 0 THEN state
  ELSE LET r == NextTok(line, idx, state.base) IN
       IF r.err # "" THEN [state EXCEPT !.err = r.err]
       ELSE IF r.next = -1 THEN state
       ELSE ProcTokens(line, r.next, StepTok(state, r.tok), fuel - 1)
\* pieces of a directive line split on blanks
RECURSIVE SplitBlank(_, _, _)
SplitBlank(s, cur, acc) == IF s = <<>> THEN Append(acc, cur)
                           ELSE IF Head(s) = " " THEN SplitBlank(Tail(s), <<>>, Append(acc, cur))
                           ELSE SplitBlank(Tail(s), Append(cur, Head(s)), acc)
ProcLine(state, raw) ==
  LET line == CleanLine(raw) IN
  IF line = <<>> THEN state
  ELSE IF StartsAt(line, Chars("@prefix"), 0) THEN
       LET pc == SplitBlank(line, <<>>, <<>>)
           pre == IF pc[2][Len(pc[2])] = ":" THEN SubSeq(pc[2], 1, Len(pc[2]) - 1) ELSE pc[2]
       IN [state EXCEPT !.prefixes = (JoinChars(pre) :> JoinChars(Slice(pc[3], 1, Len(pc[3]) - 1))) @@ @]
  ELSE IF StartsAt(line, Chars("@base"), 0) THEN
       LET pc == SplitBlank(line, <<>>, <<>>) IN [state EXCEPT !.base = JoinChars(Slice(pc[2], 1, Len(pc[2]) - 1))]
  ELSE IF At(line, 0) = "#" THEN state
  ELSE ProcTokens(line, 0, state, Len(line) + 2)
RECURSIVE ProcDoc(_, _, _)
ProcDoc(lines, i, state) == IF i > Len(lines) \/ state.err # "" THEN state ELSE ProcDoc(lines, i + 1, ProcLine(state, lines[i]))
\* the directives are the same in every document of the generator: their effect is a constant
HeaderState == ProcDoc(HeaderLines, 1, Init0)
ImplReadBody(lines) == ProcDoc(lines, 1, HeaderState)
ImplRead(lines) == ProcDoc(lines, 1, Init0)
=============================================================================
