SPECIFICATION Spec
CONSTANTS
  Alphabet = {":", "/", "#", "a"}
  L = 3
  N = 3
INVARIANT StemAgrees
CHECK_DEADLOCK FALSE
