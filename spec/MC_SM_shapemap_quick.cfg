SPECIFICATION Spec
CONSTANTS
  U <- MC_Usm
  K = 2
  CfgSet <- MC_CfgShapeMap
  Perm = FALSE
INVARIANT InvC10
INVARIANT InvProfile
INVARIANT InvNoCrash
INVARIANT InvC01
INVARIANT InvC02
INVARIANT InvC05
