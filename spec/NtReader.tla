------------------------------ MODULE NtReader ------------------------------
(***************************************************************************)
(* The N-Triples reader (property C06).                                    *)
(*  (a) generator : abstract single-line statements over an adversarial    *)
(*      alphabet, and their rendering as character sequences               *)
(*  (b) reference scanner : the N-Triples production rules as a character  *)
(*      automaton  (lemma: RefScan(Render(x)) = Abstract(x))               *)
(*  (c) implementation scanner : transliteration of                        *)
(*      NtTriplesYielder._look_for_tokens and of the literal typing of     *)
(*      shexer.utils.uri (index_of_closing_quotes / decide_literal_type)   *)
(* Text is a sequence of one-character strings.  Indices in part (c) are   *)
(* 0-based like the Python code.                                           *)
(***************************************************************************)
EXTENDS Integers, Sequences, FiniteSets, TLC, SequencesExt

XSD_STRING == "http://www.w3.org/2001/XMLSchema#string"
LANG_STRING == "http://www.w3.org/1999/02/22-rdf-syntax-ns#langString"

\* ---------------------------------------------------------------- (a) generator
\* alphabet symbols expand to 1-6 characters
Expand(sym) == CASE sym = "EQ" -> <<"\\", "\"">>                     \* escaped quote
                 [] sym = "EB" -> <<"\\", "\\">>                     \* escaped backslash
                 [] sym = "HH" -> <<"^", "^">>
                 [] sym = "SD" -> <<" ", ".">>
                 [] sym = "XS" -> <<"x", "s", "d", ":">>
                 [] sym = "GE" -> <<"g", "e", "o", ":">>
                 [] sym = "UE" -> <<"\\", "u", "0", "0", "E", "9">>   \* é
                 [] sym = "NA" -> <<"é">>                            \* non-ASCII
                 [] sym = "UQ" -> <<"\\", "u", "0", "0", "2", "2">>   \* a quote written as a UCHAR: still not the end of the literal
                 [] sym = "UB" -> <<"\\", "u", "0", "0", "5", "C">>   \* a backslash written as a UCHAR: escapes nothing
                 [] OTHER -> <<sym>>                                  \* @ # < > 7 _ % a, and LS
\* "LS" stands for one character that Unicode - not N-Triples - counts as a line boundary (U+2028; also U+0085, U+000C ...):
\* inside a literal it is an ordinary character
Alphabet == {"EQ", "EB", "HH", "SD", "XS", "GE", "UE", "NA", "UQ", "UB", "@", "#", "<", ">", "7", "_", "%", "a", "LS"}
Flat(seq) == FoldLeft(LAMBDA acc, s : acc \o Expand(s), <<>>, seq)

Chars(str) == [i \in 1..Len(str) |-> SubSeq(str, i, i)]              \* TLC string -> sequence of characters
\* IRIs with the characters the property lists ('#', '@', '_', ':')
IriOf(id) == CASE id = "i1" -> "http://a.b/c#d"
               [] id = "i2" -> "urn:x:y_z@w"
               [] id = "i3" -> "http://a.b/p_q"
               [] OTHER -> "http://u.v/dt#t"
BnodeOf(id) == CASE id = "b1" -> "_:b1" [] id = "b3" -> "_:n.1.z" [] OTHER -> "_:x_2"      \* a label may contain '.', not end with it
\* a datatype is an IRI like any other: its scheme may be spelled like one of the prefixes the library knows by heart
\* (geo:, xsd:, dt:, rdf: are legal - for geo: even registered - URI schemes); between angle brackets nothing is a prefix
DtIri(sf) == CASE sf = "dtgeo" -> "geo:wkt" [] sf = "dtxsd" -> "xsd:int" [] sf = "dtdt" -> "dt:sec" [] sf = "dtrdf" -> "rdf:HTML"
               [] sf = "dtat" -> "http://u@v.w/dt@v2"          \* '@' is an IRI character (user info, version tags): no language tag here
               [] OTHER -> IriOf("dt")
SuffixChars(sf) == CASE sf = "none" -> <<>>
                     [] sf = "lang" -> <<"@", "e", "n">>
                     [] sf = "langreg" -> <<"@", "e", "n", "-", "G", "B">>
                     [] sf = "langnum" -> <<"@", "e", "s", "-", "4", "1", "9">>          \* subtags after the first may hold digits
                     [] OTHER -> <<"^", "^", "<">> \o Chars(DtIri(sf)) \o <<">">>
TermChars(t) == CASE t.kind = "iri" -> <<"<">> \o Chars(IriOf(t.id)) \o <<">">>
                  [] t.kind = "bnode" -> Chars(BnodeOf(t.id))
                  [] t.kind = "lit" -> <<"\"">> \o Flat(t.content) \o <<"\"">> \o SuffixChars(t.suffix)
SepChars(sep) == CASE sep = "sp" -> <<" ">> [] sep = "tab" -> <<"\t">> [] OTHER -> <<" ", " ">>
Render(x) == TermChars(x.s) \o SepChars(x.sep) \o <<"<">> \o Chars(IriOf(x.p)) \o <<">">> \o SepChars(x.sep)
             \o TermChars(x.o) \o (IF x.glued THEN <<".">> ELSE <<" ", ".">>)
             \o (IF x.comment THEN <<" ", "#", " ", "c", " ", "\"", "<", ".">> ELSE <<>>)
\* what the RDF semantics of the statement is, in the reader's vocabulary
AbsTerm(t) == CASE t.kind = "iri" -> <<"IRI", IriOf(t.id)>>
                [] t.kind = "bnode" -> <<"BNode", BnodeOf(t.id)>>
                [] t.kind = "lit" -> <<CASE t.suffix = "none" -> XSD_STRING
                                         [] t.suffix \in {"lang", "langreg", "langnum"} -> LANG_STRING
                                         [] OTHER -> DtIri(t.suffix), "">>
Abstract(x) == <<AbsTerm(x.s), IriOf(x.p), AbsTerm(x.o)>>
Lit(content, suffix) == [kind |-> "lit", id |-> "", content |-> content, suffix |-> suffix]
Node(kind, id) == [kind |-> kind, id |-> id, content |-> <<>>, suffix |-> "none"]
Subjects == {Node("iri", "i1"), Node("iri", "i2"), Node("bnode", "b1"), Node("bnode", "b3")}
NodeObjects == {Node("iri", "i2"), Node("bnode", "b2"), Node("bnode", "b3")}
LitSuffixes == {"none", "lang", "langreg", "langnum", "dt", "dtgeo", "dtxsd", "dtdt", "dtrdf", "dtat"}

\* ---------------------------------------------------------------- string helpers
At(s, i) == IF i >= 0 /\ i < Len(s) THEN s[i + 1] ELSE "IndexError"        \* s[i], 0-based
Slice(s, a, b) == IF a >= b \/ a >= Len(s) THEN <<>> ELSE SubSeq(s, a + 1, IF b > Len(s) THEN Len(s) ELSE b)   \* s[a:b]
FindCh(s, ch, start) == LET c == {i \in start..(Len(s) - 1) : s[i + 1] = ch}
                        IN IF c = {} THEN -1 ELSE CHOOSE i \in c : \A j \in c : i <= j
IsSpace(ch) == ch \in {" ", "\t", "\n", "\r"}
RECURSIVE JoinChars(_)
JoinChars(s) == IF s = <<>> THEN "" ELSE Head(s) \o JoinChars(Tail(s))       \* sequence of characters -> TLC string
RECURSIVE LStrip(_)
LStrip(s) == IF s # <<>> /\ IsSpace(Head(s)) THEN LStrip(Tail(s)) ELSE s
RECURSIVE RStrip(_)
RStrip(s) == IF s # <<>> /\ IsSpace(s[Len(s)]) THEN RStrip(SubSeq(s, 1, Len(s) - 1)) ELSE s
Strip(s) == RStrip(LStrip(s))

\* ---------------------------------------------------------------- (b) reference scanner (N-Triples grammar)
\* returns [ok, term, next] ; term = <<kind, value>>
RECURSIVE RefStringEnd(_, _)
RefStringEnd(s, i) ==          \* index of the closing quote of a STRING_LITERAL_QUOTE whose body starts at i
  IF i >= Len(s) THEN -1
  ELSE IF At(s, i) = "\\" THEN RefStringEnd(s, i + 2)
  ELSE IF At(s, i) = "\"" THEN i
  ELSE RefStringEnd(s, i + 1)
\* first index >= i whose character does not satisfy ok (Len(s) if none)
FirstNot(s, i, ok(_)) == LET c == {j \in i..(Len(s) - 1) : ~ok(At(s, j))}
                         IN IF c = {} THEN (IF i > Len(s) THEN i ELSE Len(s)) ELSE CHOOSE j \in c : \A k \in c : j <= k
RefWhile(s, i, ok(_)) == FirstNot(s, i, ok)
IsLangChar(ch) == ch \in {"a", "b", "c", "d", "e", "f", "g", "h", "i", "j", "k", "l", "m", "n", "o", "p", "q", "r", "s", "t",
                          "u", "v", "w", "x", "y", "z", "A", "B", "C", "D", "E", "F", "G", "H", "I", "J", "K", "L", "M", "N",
                          "O", "P", "Q", "R", "S", "T", "U", "V", "W", "X", "Y", "Z", "0", "1", "2", "3", "4", "5", "6", "7",
                          "8", "9", "-"}
RefTerm(s, i0) ==
  LET i == RefWhile(s, i0, IsSpace) IN
  IF At(s, i) = "<" THEN
       LET e == FindCh(s, ">", i) IN
       IF e = -1 THEN [ok |-> FALSE, term |-> <<"", "">>, next |-> i]
       ELSE [ok |-> TRUE, term |-> <<"IRI", JoinChars(Slice(s, i + 1, e))>>, next |-> e + 1]
  ELSE IF At(s, i) = "_" /\ At(s, i + 1) = ":" THEN
       LET e == RefWhile(s, i, LAMBDA ch : ~IsSpace(ch) /\ ch # "<" /\ ch # "\"") IN
       \* a blank-node label may not end with '.': a trailing dot glued to it is the statement terminator
       LET e2 == IF At(s, e - 1) = "." THEN e - 1 ELSE e IN
       [ok |-> TRUE, term |-> <<"BNode", JoinChars(Slice(s, i, e2))>>, next |-> e2]
  ELSE IF At(s, i) = "\"" THEN
       LET q == RefStringEnd(s, i + 1) IN
       IF q = -1 THEN [ok |-> FALSE, term |-> <<"", "">>, next |-> i]
       ELSE IF At(s, q + 1) = "@" THEN
            [ok |-> TRUE, term |-> <<LANG_STRING, "">>, next |-> RefWhile(s, q + 2, IsLangChar)]
       ELSE IF At(s, q + 1) = "^" /\ At(s, q + 2) = "^" /\ At(s, q + 3) = "<" THEN
            LET e == FindCh(s, ">", q + 3) IN
            [ok |-> e # -1, term |-> <<JoinChars(Slice(s, q + 4, e)), "">>, next |-> e + 1]
       ELSE [ok |-> TRUE, term |-> <<XSD_STRING, "">>, next |-> q + 1]
  ELSE [ok |-> FALSE, term |-> <<"", "">>, next |-> i]
RefScan(s) ==
  LET a == RefTerm(s, 0)
      b == RefTerm(s, a.next)
      c == RefTerm(s, b.next)
      d == RefWhile(s, c.next, IsSpace)
  IN IF a.ok /\ b.ok /\ c.ok /\ b.term[1] = "IRI" /\ At(s, d) = "." /\
        (LET e == RefWhile(s, d + 1, IsSpace) IN e >= Len(s) \/ At(s, e) = "#")
     THEN <<a.term, b.term[2], c.term>>
     ELSE <<<<"", "">>, "malformed", <<"", "">>>>

\* ---------------------------------------------------------------- (c) implementation scanner (as coded after the fix)
\* shexer.utils.uri.index_of_closing_quotes
RECURSIVE ClosingQuotes(_, _)
ClosingQuotes(lit, i) ==
  IF i >= Len(lit) THEN -1
  ELSE IF At(lit, i) = "\\" THEN ClosingQuotes(lit, i + 2)
  ELSE IF At(lit, i) = "\"" THEN i
  ELSE ClosingQuotes(lit, i + 1)
IsAlnum(ch) == IsLangChar(ch) /\ ch # "-"
\* while last + 1 < len(s) and ok(s[last + 1]): last += 1
ImplWhile(s, last, ok(_)) == FirstNot(s, last + 1, ok) - 1
StartsAt(s, pat, i) == i + Len(pat) <= Len(s) /\ \A j \in 1..Len(pat) : s[i + j] = pat[j]
\* NtTriplesYielder._look_for_last_index_of_literal_token
ImplLitLast(str, first) ==
  LET sub == Slice(str, first, Len(str))
      q == ClosingQuotes(sub, 1)
      last == IF StartsAt(sub, <<"@">>, q + 1) THEN ImplWhile(sub, q + 1, LAMBDA ch : IsAlnum(ch) \/ ch = "-")
              ELSE IF StartsAt(sub, <<"^", "^", "<">>, q + 1) THEN FindCh(sub, ">", q)
              ELSE IF StartsAt(sub, <<"^", "^">>, q + 1) THEN ImplWhile(sub, q + 2, LAMBDA ch : ~IsSpace(ch))
              ELSE q
  IN last + first
ImplUriLast(str, first) == FindCh(str, ">", first)
RECURSIVE BackOffDots(_, _, _)
BackOffDots(str, first, last) == IF last > first /\ At(str, last) = "." THEN BackOffDots(str, first, last - 1) ELSE last
ImplBnodeLast(str, first) == BackOffDots(str, first, ImplWhile(str, first, LAMBDA ch : ~IsSpace(ch)))
IsNumeric(ch) == ch \in {"0", "1", "2", "3", "4", "5", "6", "7", "8", "9"}
ImplNumberLast(str, first) == (IF FindCh(str, " ", first) = -1 THEN first - 1 ELSE FindCh(str, " ", first)) - 1
\* NtTriplesYielder._look_for_tokens ; fuel bounds the Python while loop (running out of fuel = no progress = hang)
RECURSIVE ImplTokens(_, _, _, _)
ImplTokens(str, cur, acc, fuel) ==
  IF fuel = 0 THEN <<"HANG">>
  ELSE IF cur = Len(str) THEN acc
  ELSE IF cur > Len(str) THEN <<"HANG">>                       \* while current != len: never equal again
  ELSE LET ch == At(str, cur) IN
       IF ch = "<" \/ ch = "\"" \/ ch = "_" \/ IsNumeric(ch)
       THEN LET last == CASE ch = "<" -> ImplUriLast(str, cur)
                          [] ch = "\"" -> ImplLitLast(str, cur)
                          [] ch = "_" -> ImplBnodeLast(str, cur)
                          [] OTHER -> ImplNumberLast(str, cur)
            IN ImplTokens(str, last + 1, Append(acc, Slice(str, cur, last + 1)), fuel - 1)
       ELSE IF ch = "." THEN acc
       ELSE ImplTokens(str, cur + 1, acc, fuel - 1)
\* shexer.utils.uri.decide_literal_type on a quoted token
Prefixed(t, pre, ns) == IF StartsAt(t, Chars(pre), 0) THEN ns \o JoinChars(Slice(t, Len(pre), Len(t))) ELSE ""
ImplLiteralType(tok) ==
  LET q == ClosingQuotes(tok, 1)
      suffix == Strip(Slice(tok, q + 1, Len(tok)))
      ty == Slice(suffix, 2, Len(suffix))
  IN IF StartsAt(suffix, <<"@">>, 0) THEN LANG_STRING
     ELSE IF ~StartsAt(suffix, <<"^", "^">>, 0) THEN XSD_STRING
     ELSE IF At(ty, 0) = "<" /\ At(ty, Len(ty) - 1) = ">" THEN JoinChars(Slice(ty, 1, Len(ty) - 1))
     ELSE IF StartsAt(ty, Chars("xsd:"), 0) THEN Prefixed(ty, "xsd:", "http://www.w3.org/2001/XMLSchema#")
     ELSE IF StartsAt(ty, Chars("rdf:"), 0) THEN Prefixed(ty, "rdf:", "http://www.w3.org/1999/02/22-rdf-syntax-ns#")
     ELSE IF StartsAt(ty, Chars("dt:"), 0) THEN Prefixed(ty, "dt:", "http://dbpedia.org/datatype/")
     ELSE IF StartsAt(ty, Chars("geo:"), 0) THEN Prefixed(ty, "geo:", "http://www.opengis.net/ont/geosparql#")
     ELSE "RuntimeError"
\* shexer.utils.triple_yielders.tune_token (objects and subjects)
ImplTune(tok) ==
  IF At(tok, 0) = "<" THEN <<"IRI", JoinChars(Slice(tok, 1, Len(tok) - 1))>>
  ELSE IF At(tok, 0) = "\"" THEN <<ImplLiteralType(tok), "">>
  ELSE IF StartsAt(tok, <<"_", ":">>, 0) THEN <<"BNode", JoinChars(tok)>>
  ELSE <<"other", JoinChars(tok)>>
ImplScan(line) ==
  LET toks == ImplTokens(Strip(line), 0, <<>>, Len(line) + 4) IN
  IF toks = <<"HANG">> THEN <<<<"", "">>, "hang", <<"", "">>>>
  ELSE IF Len(toks) # 3 THEN <<<<"", "">>, "error-line", <<"", "">>>>
  ELSE <<ImplTune(toks[1]), JoinChars(Slice(toks[2], 1, Len(toks[2]) - 1)), ImplTune(toks[3])>>
=============================================================================
