SPECIFICATION Spec
CONSTANTS
  N = 3
INVARIANT Dump
