------------------------------ MODULE ShaperApi ------------------------------
(***************************************************************************)
(* C18: the façade (class Shaper) as a call-history state machine.         *)
(* Per Shaper: the memoised stages (targets, profile, shapes + the         *)
(* threshold they were built with), its namespaces dictionary, and what    *)
(* each call returned, abstracted to the arguments the result depends on:  *)
(*   [fmt, thr, prefixes, dup, sink]                                       *)
(* The contract is  result = Fresh(args): the result of a brand-new Shaper *)
(* given the same constructor arguments and this call's arguments.         *)
(* The caller's namespaces dictionary is a separate variable so that two   *)
(* Shapers built from the same dictionary are modelled.                    *)
(***************************************************************************)
EXTENDS Integers, Sequences, FiniteSets, TLC
CONSTANTS Shapers,        \* e.g. {"A", "B"}
          Thresholds,     \* e.g. {0, 50, 100}  (percent)
          MaxCalls
VARIABLES callerNs,       \* the dictionary object the caller passes to every constructor: set of prefixes in it
          built,          \* which Shapers exist
          ns,             \* Shaper -> set of prefixes in its own dictionary
          memoThr,        \* Shaper -> threshold its shape list was built with, or -1
          memoStages,     \* Shaper -> set of stages already computed
          dupExamples,    \* Shaper -> how many times example annotations were added to the statements
          log             \* sequence of [shaper, call, result]
vars == <<callerNs, built, ns, memoThr, memoStages, dupExamples, log>>
UserPrefixes == {"ex"}
ShapePrefix(used) == IF "" \notin used THEN "" ELSE IF "weso-s" \notin used THEN "weso-s" ELSE "shapes"
Calls == [kind : {"shex"}, fmt : {"shexc", "shacl"}, sink : {"string", "file"}, thr : Thresholds] \cup
         [kind : {"profile"}, fmt : {"json"}, sink : {"string"}, thr : {0}]
\* what a brand-new Shaper returns for this call
Fresh(c) == [fmt |-> c.fmt, thr |-> c.thr, prefixes |-> UserPrefixes \cup {ShapePrefix(UserPrefixes)}, dup |-> 0, sink |-> c.sink]

Init == /\ callerNs = UserPrefixes /\ built = {} /\ ns = [s \in Shapers |-> {}] /\ memoThr = [s \in Shapers |-> -1]
        /\ memoStages = [s \in Shapers |-> {}] /\ dupExamples = [s \in Shapers |-> 0] /\ log = <<>>
\* Shaper.__init__: copies the caller's dictionary and adds the shapes namespace to its own copy
Construct(s) == /\ s \notin built /\ built' = built \cup {s}
                /\ ns' = [ns EXCEPT ![s] = callerNs \cup {ShapePrefix(callerNs)}]
                /\ UNCHANGED <<callerNs, memoThr, memoStages, dupExamples, log>>
\* Shaper.shex_graph: stages are memoised; the shape list is rebuilt when the threshold differs from the memoised one;
\* the serializers work on their own copy of the dictionary; example annotations are added once
Shex(s, c) == /\ s \in built /\ c.kind = "shex" /\ Len(log) < MaxCalls
              /\ memoStages' = [memoStages EXCEPT ![s] = @ \cup {"targets", "profile", "shapes"}]
              /\ memoThr' = [memoThr EXCEPT ![s] = c.thr]
              /\ log' = Append(log, [shaper |-> s, call |-> c,
                                     result |-> [fmt |-> c.fmt, thr |-> c.thr, prefixes |-> ns[s], dup |-> 0, sink |-> c.sink]])
              /\ UNCHANGED <<callerNs, built, ns, dupExamples>>
Profile(s, c) == /\ s \in built /\ c.kind = "profile" /\ Len(log) < MaxCalls
                 /\ memoStages' = [memoStages EXCEPT ![s] = @ \cup {"targets", "profile"}]
                 /\ log' = Append(log, [shaper |-> s, call |-> c,
                                        result |-> [fmt |-> c.fmt, thr |-> c.thr, prefixes |-> ns[s], dup |-> 0, sink |-> c.sink]])
                 /\ UNCHANGED <<callerNs, built, ns, memoThr, dupExamples>>
Next == \E s \in Shapers : Construct(s) \/ \E c \in Calls : Shex(s, c) \/ Profile(s, c)
Spec == Init /\ [][Next]_vars
\* ---- the contract
HistoryFree == \A i \in 1..Len(log) : log[i].result = Fresh(log[i].call)
CallerUntouched == callerNs = UserPrefixes
\* ---- verdict clauses for an observed call: the harness reports, for each call of a sequence, whether the returned text
\* equals the text a fresh Shaper returns for the same arguments (sameAsFresh), whether the file written equals the string
\* returned (fileSame; TRUE when no file was written) and whether a repeated call returned what the previous identical call did
CallClauses(o) ==
  (IF ~o.sameAsFresh THEN {"C18.history"} ELSE {}) \cup
  (IF ~o.fileSame THEN {"C18.file"} ELSE {}) \cup
  (IF ~o.status THEN {"C18.raise"} ELSE {})
=============================================================================
