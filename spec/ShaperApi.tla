------------------------------ MODULE ShaperApi ------------------------------
(***************************************************************************)
(* C18: the façade (class Shaper) as a call-history state machine.         *)
(* Per Shaper: the memoised stages (targets, profile, shapes + the         *)
(* threshold they were built with), its namespaces dictionary, and what    *)
(* each call returned, abstracted to the arguments the result depends on:  *)
(*   [fmt, thr, prefixes, dup, sink]                                       *)
(* The contract is  result = Fresh(args): the result of a brand-new Shaper *)
(* given the same constructor arguments and this call's arguments.         *)
(* The caller's namespaces dictionary is a separate variable so that two   *)
(* Shapers built from the same dictionary are modelled.                    *)
(***************************************************************************)
EXTENDS Integers, Sequences, FiniteSets, TLC
CONSTANTS Shapers,        \* e.g. {"A", "B"}
          Thresholds,     \* e.g. {0, 50, 501, 100}  (percent; 501 stands for a threshold a rounding error above 50 %)
          MaxCalls,
          NearPairs,      \* pairs of thresholds that differ by less than 1e-9 (relative), e.g. {{50, 501}}
          GraphKinds,     \* "normal" | "void" (instances exist, every predicate lies in an ignored namespace: the profile is empty)
          Variant         \* "code" : the memo tests as coded;  "isclose" / "truthy" : two plausible rewritings that are wrong
VARIABLES callerNs,       \* the dictionary object the caller passes to every constructor: set of prefixes in it
          built,          \* which Shapers exist
          ns,             \* Shaper -> set of prefixes in its own dictionary
          memoThr,        \* Shaper -> threshold its shape list was built with, or -1
          memoStages,     \* Shaper -> set of stages already computed
          dupExamples,    \* Shaper -> how many times example annotations were added to the statements
          graph,          \* Shaper -> kind of graph / configuration it was built on
          tracker,        \* Shaper -> "none" | "tracked" | "consumed" (the profiler rewrites the tracker's entries while it reads them)
          profile,        \* Shaper -> "none" | "full" | "empty"
          log             \* sequence of [shaper, call, result]
vars == <<callerNs, built, ns, memoThr, memoStages, dupExamples, graph, tracker, profile, log>>
UserPrefixes == {"ex"}
ShapePrefix(used) == IF "" \notin used THEN "" ELSE IF "weso-s" \notin used THEN "weso-s" ELSE "shapes"
Calls == [kind : {"shex"}, fmt : {"shexc", "shacl"}, sink : {"string", "file"}, thr : Thresholds] \cup
         [kind : {"profile"}, fmt : {"json"}, sink : {"string"}, thr : {0}]
\* what a brand-new Shaper returns for this call
Fresh(c) == [status |-> "ok", fmt |-> c.fmt, thr |-> c.thr, prefixes |-> UserPrefixes \cup {ShapePrefix(UserPrefixes)}, dup |-> 0, sink |-> c.sink]
\* ---- the memo tests of Shaper.shex_graph / profile_graph
\* "is the stored shape list the one for this threshold?"   code: self._shape_list_threshold != acceptance_threshold
ThrHit(m, t) == IF Variant = "isclose" THEN m = t \/ {m, t} \in NearPairs ELSE m = t
\* "is there a profile already?"   code: self._profile is None  (an empty dictionary IS a profile)
NeedProfile(p) == IF Variant = "truthy" THEN p \in {"none", "empty"} ELSE p = "none"

Init == /\ callerNs = UserPrefixes /\ built = {} /\ ns = [s \in Shapers |-> {}] /\ memoThr = [s \in Shapers |-> -1]
        /\ memoStages = [s \in Shapers |-> {}] /\ dupExamples = [s \in Shapers |-> 0] /\ log = <<>>
        /\ graph \in [Shapers -> GraphKinds] /\ tracker = [s \in Shapers |-> "none"] /\ profile = [s \in Shapers |-> "none"]
\* Shaper.__init__: copies the caller's dictionary and adds the shapes namespace to its own copy
Construct(s) == /\ s \notin built /\ built' = built \cup {s}
                /\ ns' = [ns EXCEPT ![s] = callerNs \cup {ShapePrefix(callerNs)}]
                /\ UNCHANGED <<callerNs, memoThr, memoStages, dupExamples, graph, tracker, profile, log>>
\* the two memoised passes: the tracker runs once; the profiler runs when there is no profile yet and rewrites the tracker's entries
\* as it goes - running it a second time over rewritten entries raises (TypeError: unhashable type)
Passes(s) == LET need == NeedProfile(profile[s]) IN
  [raises |-> need /\ tracker[s] = "consumed",
   tracker |-> IF need THEN "consumed" ELSE IF tracker[s] = "none" THEN "tracked" ELSE tracker[s],
   profile |-> IF need THEN (IF graph[s] = "void" THEN "empty" ELSE "full") ELSE profile[s]]
\* Shaper.shex_graph: stages are memoised; the shape list is rebuilt when the threshold differs from the memoised one - what is
\* serialised is the shape list for `used`; the serializers work on their own copy of the dictionary; example annotations are added once
Shex(s, c) == /\ s \in built /\ c.kind = "shex" /\ Len(log) < MaxCalls
              /\ LET ps == Passes(s)
                     used == IF memoThr[s] # -1 /\ ThrHit(memoThr[s], c.thr) THEN memoThr[s] ELSE c.thr
                 IN /\ tracker' = [tracker EXCEPT ![s] = ps.tracker] /\ profile' = [profile EXCEPT ![s] = ps.profile]
                    /\ memoStages' = [memoStages EXCEPT ![s] = @ \cup {"targets", "profile", "shapes"}]
                    /\ memoThr' = [memoThr EXCEPT ![s] = IF ps.raises THEN @ ELSE used]
                    /\ log' = Append(log, [shaper |-> s, call |-> c,
                                           result |-> [status |-> IF ps.raises THEN "raise" ELSE "ok", fmt |-> c.fmt, thr |-> used,
                                                       prefixes |-> ns[s], dup |-> 0, sink |-> c.sink]])
              /\ UNCHANGED <<callerNs, built, ns, dupExamples, graph>>
Profile(s, c) == /\ s \in built /\ c.kind = "profile" /\ Len(log) < MaxCalls
                 /\ LET ps == Passes(s)
                    IN /\ tracker' = [tracker EXCEPT ![s] = ps.tracker] /\ profile' = [profile EXCEPT ![s] = ps.profile]
                       /\ memoStages' = [memoStages EXCEPT ![s] = @ \cup {"targets", "profile"}]
                       /\ log' = Append(log, [shaper |-> s, call |-> c,
                                              result |-> [status |-> IF ps.raises THEN "raise" ELSE "ok", fmt |-> c.fmt, thr |-> c.thr,
                                                          prefixes |-> ns[s], dup |-> 0, sink |-> c.sink]])
                 /\ UNCHANGED <<callerNs, built, ns, memoThr, dupExamples, graph>>
Next == \E s \in Shapers : Construct(s) \/ \E c \in Calls : Shex(s, c) \/ Profile(s, c)
Spec == Init /\ [][Next]_vars
\* ---- the contract
HistoryFree == \A i \in 1..Len(log) : log[i].result = Fresh(log[i].call)
CallerUntouched == callerNs = UserPrefixes
\* ---- verdict clauses for an observed call: the harness reports, for each call of a sequence, whether the returned text
\* equals the text a fresh Shaper returns for the same arguments (sameAsFresh), whether the file written equals the string
\* returned (fileSame; TRUE when no file was written) and whether a repeated call returned what the previous identical call did
CallClauses(o) ==
  (IF ~o.sameAsFresh THEN {"C18.history"} ELSE {}) \cup
  (IF ~o.fileSame THEN {"C18.file"} ELSE {}) \cup
  (IF ~o.status THEN {"C18.raise"} ELSE {})
=============================================================================
