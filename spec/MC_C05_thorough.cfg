SPECIFICATION Spec
CONSTANTS
  U <- MC_U
  K = 4
  CfgSet <- MC_CfgC05
  Perm = FALSE
INVARIANT InvC05
