SPECIFICATION Spec
CONSTANTS
  U <- MC_Usmall
  K = 3
  Pairs <- PairsNoExact
  Rel = "noexact"
INVARIANT RelHolds
