SPECIFICATION Spec
CONSTANTS
  U <- MC_Usmall
  K = 3
  CfgSet <- MC_CfgC05
  Perm = FALSE
INVARIANT InvC05
