---------------------------- MODULE Trace_NtDoc ----------------------------
(* L3 for C06, documents: a trace is a sequence of statements written one per line with one of the line ends N-Triples admits *)
(* (EOL ::= [#xD#xA]+ : LF, CR LF or CR alone), delivered as a raw string or as a plain / gz / xz file, and what the real     *)
(* NtTriplesYielder yielded for it.  The reader must yield, in document order, one triple per statement - the triple the      *)
(* grammar (NtReader!Abstract) assigns to that statement - and count no error line, whatever the line end and the carrier.    *)
EXTENDS NtReader, Json, IOUtils
Traces == JsonDeserialize(IOEnv.TRACE_FILE)
VARIABLE tid
Tr == Traces[tid]
XOf(x) == [s |-> x.s, p |-> x.p, o |-> x.o, sep |-> x.sep, glued |-> x.glued, comment |-> x.comment]
Norm(t) == <<<<t[1][1], t[1][2]>>, t[2], <<t[3][1], IF t[3][1] \in {"IRI", "BNode"} THEN t[3][2] ELSE "">>>>
Clauses ==
  IF Tr.eol \notin {"LF", "CRLF", "CR"} THEN {"MACHINERY.eol"}
  ELSE IF Tr.status # "ok" THEN {"C06.doc." \o Tr.status}
  ELSE (IF Len(Tr.triples) # Len(Tr.xs) THEN {"C06.doc.count"}
        ELSE IF \E i \in 1..Len(Tr.xs) : Norm(Tr.triples[i]) # Abstract(XOf(Tr.xs[i])) THEN {"C06.doc.triple"} ELSE {}) \cup
       (IF Tr.errors # 0 THEN {"C06.doc.errors"} ELSE {})
Init == tid \in 1..Len(Traces)
Next == UNCHANGED tid
Spec == Init /\ [][Next]_tid
Report == PrintT(<<"VERDICT", Tr.id, Clauses, [statements |-> Len(Tr.xs)]>>)
=============================================================================
