---------------------------- MODULE MC_NtReader ----------------------------
(* L1 for C06: every statement of the generator, rendered, is read back by the reference scanner (lemma) *)
(* and by the transliterated implementation scanner (design-level C06).                                    *)
EXTENDS NtReader
CONSTANTS L,            \* maximal number of alphabet symbols in a literal
          Layouts       \* "all" : every separator / glued dot / comment / subject ; "core" : one subject, blank separator
VARIABLES x, pc
vars == <<x, pc>>
Seps == IF Layouts = "all" THEN {"sp", "tab", "sp2"} ELSE {"sp"}
Subjs == IF Layouts = "all" THEN Subjects ELSE {Node("iri", "i1")}
Comments == IF Layouts = "all" THEN BOOLEAN ELSE {FALSE}
Stmt(s, o, sep, g, c) == [s |-> s, p |-> "i3", o |-> o, sep |-> sep, glued |-> g, comment |-> c]
Init == /\ pc = "gen"
        /\ x \in {Stmt(s, o, sep, g, c) : s \in Subjs, o \in NodeObjects \cup {Lit(<<>>, sf) : sf \in LitSuffixes},
                                           sep \in Seps, g \in BOOLEAN, c \in Comments}
Grow == /\ pc = "gen" /\ x.o.kind = "lit" /\ Len(x.o.content) < L
        /\ \E a \in Alphabet : x' = [x EXCEPT !.o.content = Append(@, a)]
        /\ UNCHANGED pc
Stop == pc = "gen" /\ pc' = "done" /\ UNCHANGED x
Next == Grow \/ Stop \/ (pc = "done" /\ UNCHANGED vars)
Spec == Init /\ [][Next]_vars
GrammarLemma == pc = "done" => RefScan(Render(x)) = Abstract(x)
C06Design == pc = "done" => ImplScan(Render(x)) = Abstract(x)
=============================================================================
