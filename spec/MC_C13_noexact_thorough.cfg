SPECIFICATION Spec
CONSTANTS
  U <- MC_Usmall
  K = 4
  Pairs <- PairsNoExact
  Rel = "noexact"
INVARIANT RelHolds
