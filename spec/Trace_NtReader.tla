-------------------------- MODULE Trace_NtReader --------------------------
(* L3 for C06: each trace is one line fed to the real NtTriplesYielder: the abstract statement it was         *)
(* rendered from, the characters actually fed, what the reader yielded, its error counter.                    *)
EXTENDS NtReader, Json, IOUtils
Traces == JsonDeserialize(IOEnv.TRACE_FILE)
VARIABLE tid
Tr == Traces[tid]
X == [s |-> Tr.x.s, p |-> Tr.x.p, o |-> Tr.x.o, sep |-> Tr.x.sep, glued |-> Tr.x.glued, comment |-> Tr.x.comment]
Expected == Abstract(X)
Norm(t) == <<<<t[1][1], t[1][2]>>, t[2], <<t[3][1], IF t[3][1] \in {"IRI", "BNode"} THEN t[3][2] ELSE "">>>>
Clauses ==
  (IF Tr.line # Render(X) THEN {"MACHINERY.render"} ELSE {}) \cup
  (IF RefScan(Tr.line) # Expected THEN {"MACHINERY.grammar"} ELSE {}) \cup
  (IF Tr.status # "ok" THEN {"C06." \o Tr.status}
   ELSE (IF Len(Tr.triples) # 1 THEN {"C06.count"}
         ELSE IF Norm(Tr.triples[1]) # Expected THEN {"C06.triple"} ELSE {}) \cup
        (IF Tr.errors # 0 THEN {"C06.errors"} ELSE {})) \cup
  (IF ImplScan(Tr.line) # (IF Tr.status = "ok" /\ Len(Tr.triples) = 1 THEN Norm(Tr.triples[1]) ELSE ImplScan(Tr.line))
   THEN {"drift.scanner"} ELSE {})
Init == tid \in 1..Len(Traces)
Next == UNCHANGED tid
Spec == Init /\ [][Next]_tid
Report == PrintT(<<"VERDICT", Tr.id, Clauses, [len |-> Len(Tr.line)]>>)
=============================================================================
