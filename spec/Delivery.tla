------------------------------ MODULE Delivery ------------------------------
(***************************************************************************)
(* C08: how a document reaches the extraction pipeline.  A delivery is a   *)
(* partition of the document into parts (files, zip members, URLs) read by *)
(* the concatenating multi-source yielders (MultifileBaseTripleYielder,    *)
(* MultiZipTriplesYielder) with their per-part counters.  The pipeline     *)
(* (Core) is a function of the set of triples, so what has to hold here    *)
(* is: what is yielded is the document as a bag, every pass reads the same *)
(* bag, and the counters add up.                                           *)
(***************************************************************************)
EXTENDS Integers, Sequences, FiniteSets, TLC, SequencesExt
CONSTANTS Doc,          \* sequence of triples (any values)
          MaxParts
VARIABLES parts,        \* the partition: sequence of sequences, Flatten(parts) is a permutation-free split of Doc
          part, pos,    \* reading position: current part, next index inside it
          yielded,      \* what the consumer has received so far
          usedCount,    \* _triples_yielded_from_used_yielders
          curCount      \* yielded_triples of the current part's yielder
vars == <<parts, part, pos, yielded, usedCount, curCount>>
Flatten(ps) == FoldLeft(LAMBDA acc, p : acc \o p, <<>>, ps)
\* all ways of cutting Doc into 1..MaxParts consecutive, possibly empty, parts
Cuts == {c \in [1..(MaxParts - 1) -> 0..Len(Doc)] : \A i \in 1..(MaxParts - 2) : c[i] <= c[i + 1]}
PartsOf(c) == [i \in 1..MaxParts |-> SubSeq(Doc, (IF i = 1 THEN 0 ELSE c[i - 1]) + 1, IF i = MaxParts THEN Len(Doc) ELSE c[i])]
Init == /\ parts \in {PartsOf(c) : c \in Cuts}
        /\ part = 1 /\ pos = 1 /\ yielded = <<>> /\ usedCount = 0 /\ curCount = 0
YieldOne == /\ part <= Len(parts) /\ pos <= Len(parts[part])
            /\ yielded' = Append(yielded, parts[part][pos]) /\ pos' = pos + 1 /\ curCount' = curCount + 1
            /\ UNCHANGED <<parts, part, usedCount>>
NextPart == /\ part <= Len(parts) /\ pos > Len(parts[part])
            /\ part' = part + 1 /\ pos' = 1
            /\ usedCount' = usedCount + curCount /\ curCount' = 0      \* counters of the finished yielder are added when the next one is built
            /\ UNCHANGED <<parts, yielded>>
Done == part > Len(parts) /\ UNCHANGED vars
Next == YieldOne \/ NextPart \/ Done
Spec == Init /\ [][Next]_vars /\ WF_vars(YieldOne) /\ WF_vars(NextPart)
\* ---- properties
BagOf(s) == [x \in ToSet(s) |-> Cardinality({i \in 1..Len(s) : s[i] = x})]
PrefixOfDoc == IsPrefix(yielded, Doc)
CountersAddUp == usedCount + curCount = Len(yielded)
Complete == part > Len(parts) => (yielded = Doc /\ usedCount + curCount = Len(Doc))
EventuallyAll == <>(part > Len(parts))
\* ---- used by Trace_Campaign: the bag a channel delivered in a pass equals the document's bag
SameBag(s1, s2) == BagOf(s1) = BagOf(s2)
=============================================================================
