SPECIFICATION Spec
CONSTANTS
  U <- MC_Uperm
  K = 4
  CfgSet <- MC_CfgPerm
  Perm = TRUE
INVARIANT InvC01
INVARIANT InvC02
INVARIANT InvOrderFree
