SPECIFICATION Spec
CONSTANTS
  U <- MC_U
  K = 4
  CfgSet <- MC_CfgTargets
  Perm = FALSE
INVARIANT InvC10
INVARIANT InvC01
INVARIANT InvC02
