SPECIFICATION Spec
CONSTANTS
  Shapers = {"A", "B"}
  Thresholds = {0, 50, 100}
  MaxCalls = 4
INVARIANT HistoryFree
INVARIANT CallerUntouched
CHECK_DEADLOCK FALSE
