------------------------------ MODULE MC_Pair ------------------------------
EXTENDS Pair
T == "rdf:type"
a == <<"IRI", "ex:a">>
b == <<"IRI", "ex:b">>
x == <<"BNode", "_:x">>
u == <<"IRI", "ex:u">>
CC1 == <<"IRI", "ex:C">>
CD1 == <<"IRI", "ex:D">>
s1 == <<"xsd:string", "s1">>
s2 == <<"xsd:string", "s2">>
i1 == <<"xsd:integer", "1">>
MC_Usmall == <<
  <<a, T, CC1>>, <<b, T, CC1>>, <<x, T, CC1>>, <<b, T, CD1>>, <<x, T, CD1>>,
  <<a, "ex:p", b>>, <<a, "ex:p", u>>, <<a, "ex:p", x>>, <<a, "ex:p", s1>>, <<a, "ex:p", i1>>,
  <<b, "ex:p", a>>, <<b, "ex:p", x>>, <<b, "ex:p", s1>>, <<b, "ex:p", s2>>,
  <<x, "ex:p", a>>, <<x, "ex:p", s1>>, <<u, "ex:p", a>>, <<a, "ex:p", a>>
>>
\* IRI-only universe for the inverse relation
MC_Uiri == <<
  <<a, T, CC1>>, <<b, T, CC1>>, <<u, T, CC1>>, <<b, T, CD1>>, <<u, T, CD1>>,
  <<a, "ex:p", b>>, <<a, "ex:p", u>>, <<a, "ex:p", s1>>, <<a, "ex:p", i1>>,
  <<b, "ex:p", a>>, <<b, "ex:p", u>>, <<b, "ex:p", s1>>,
  <<u, "ex:p", a>>, <<a, "ex:p", a>>, <<a, "ex:q", b>>, <<b, "ex:q", b>>
>>
BB == {TRUE, FALSE}
Base == [instProp |-> T, mode |-> "all", targets |-> <<>>, items |-> <<>>, thr |-> <<0, 1>>, inverse |-> FALSE,
         allCompliant |-> TRUE, keepLess |-> TRUE, discardUseless |-> TRUE, allowOpt |-> TRUE, disableExact |-> FALSE,
         disableOr |-> TRUE, redundantOr |-> FALSE, removeEmpty |-> TRUE, cap |-> 0, ignoreNs |-> <<>>, salt |-> 0,
         decimals |-> -1]
Bases == {[Base EXCEPT !.keepLess = kl, !.inverse = iv, !.disableExact = de, !.allCompliant = ac] : kl \in BB, iv \in BB, de \in BB, ac \in BB}
Grid == <<<<0, 1>>, <<1, 3>>, <<1, 2>>, <<2, 3>>, <<1, 1>>>>
PairsThr == {<<[c EXCEPT !.thr = Grid[ij[1]]], [c EXCEPT !.thr = Grid[ij[2]]]>> : c \in Bases, ij \in {q \in (1..5) \X (1..5) : q[1] <= q[2]}}
SwBases == {[Base EXCEPT !.keepLess = kl, !.inverse = iv, !.thr = t, !.discardUseless = du] : kl \in BB, iv \in BB, du \in BB, t \in {<<0, 1>>, <<1, 2>>}}
PairsRelax == {<<[c EXCEPT !.allCompliant = FALSE, !.allowOpt = ao, !.disableExact = de], [c EXCEPT !.allCompliant = TRUE, !.allowOpt = ao, !.disableExact = de]>> : c \in SwBases, ao \in BB, de \in BB}
PairsNoOpt == {<<[c EXCEPT !.allowOpt = TRUE, !.disableExact = de], [c EXCEPT !.allowOpt = FALSE, !.disableExact = de]>> : c \in SwBases, de \in BB}
PairsNoExact == {<<[c EXCEPT !.disableExact = FALSE, !.allCompliant = ac], [c EXCEPT !.disableExact = TRUE, !.allCompliant = ac]>> : c \in SwBases, ac \in BB}
PairsOr == {<<c, [c EXCEPT !.disableOr = FALSE, !.redundantOr = ro]>> : c \in SwBases, ro \in BB}
PairsInverse == {<<[c EXCEPT !.inverse = TRUE], [c EXCEPT !.inverse = FALSE]>> : c \in {x2 \in SwBases : ~x2.inverse}}
PairsCapBig == {<<[c EXCEPT !.cap = 0], [c EXCEPT !.cap = 3]>> : c \in SwBases}
=============================================================================
