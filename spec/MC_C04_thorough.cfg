SPECIFICATION Spec
CONSTANTS
  U <- MC_U
  K = 4
  CfgSet <- MC_CfgC04
  Perm = FALSE
INVARIANT InvNoCrash
PROPERTY Terminates
