SPECIFICATION Spec
CONSTANTS
  Shapers = {"A", "B"}
  Thresholds = {0, 50, 100}
  MaxCalls = 1000000
INVARIANT HistoryFree
INVARIANT CallerUntouched
VIEW LastOnly
CHECK_DEADLOCK FALSE
