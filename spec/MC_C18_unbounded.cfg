SPECIFICATION Spec
CONSTANTS
  Shapers = {"A", "B"}
  Thresholds = {0, 50, 501, 100}
  NearPairs = {{50, 501}}
  GraphKinds = {"normal", "void"}
  Variant = "code"
  MaxCalls = 1000000
INVARIANT HistoryFree
INVARIANT CallerUntouched
VIEW LastOnly
CHECK_DEADLOCK FALSE
