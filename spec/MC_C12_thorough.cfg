SPECIFICATION Spec
CONSTANTS
  U <- MC_Usmall
  K = 4
  Pairs <- PairsThr
  Rel = "thr"
INVARIANT RelHolds
