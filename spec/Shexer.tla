------------------------------ MODULE Shexer ------------------------------
(***************************************************************************)
(* The extraction pipeline as a state machine over Core's stage operators: *)
(*   gen --GenAdd*--> gen --Track--> tracked --Profile--> profiled         *)
(*       --Shex--> done                                                    *)
(* GenAdd builds the document from the universe U (a sequence of candidate *)
(* triples): in "set" mode triples are appended in increasing index, so    *)
(* every subset of U of size <= K is one document; in "perm" mode in any   *)
(* order, so every ordering of every subset is a document.                 *)
(* The declarative property clauses of Core are the invariants.            *)
(***************************************************************************)
EXTENDS Core
CONSTANTS U,        \* universe of triples (sequence)
          K,        \* maximal number of triples in a document
          CfgSet,   \* configurations explored
          Perm      \* TRUE: every ordering of every subset
VARIABLES last, pc, inst, profs, out
vars == <<doc, cfg, last, pc, inst, profs, out>>

Init == /\ doc = <<>> /\ cfg \in CfgSet /\ last = 0 /\ pc = "gen"
        /\ inst = EmptyF /\ profs = EmptyF /\ out = EmptyF
GenAdd == /\ pc = "gen" /\ Len(doc) < K
          /\ \E i \in 1..Len(U) :
               /\ IF Perm THEN U[i] \notin ToSet(doc) ELSE i > last
               /\ doc' = Append(doc, U[i]) /\ last' = i
          /\ UNCHANGED <<cfg, pc, inst, profs, out>>
Track == /\ pc = "gen" /\ pc' = "tracked" /\ inst' = TrackF
         /\ UNCHANGED <<doc, cfg, last, profs, out>>
Profile == /\ pc = "tracked" /\ pc' = "profiled" /\ profs' = ProfsOf(inst)
           /\ UNCHANGED <<doc, cfg, last, inst, out>>
Shex == /\ pc = "profiled" /\ pc' = "done" /\ out' = OutFrom(inst, profs)
        /\ UNCHANGED <<doc, cfg, last, inst, profs>>
Done == pc = "done" /\ UNCHANGED vars
Next == GenAdd \/ Track \/ Profile \/ Shex \/ Done
Spec == Init /\ [][Next]_vars /\ WF_vars(Track) /\ WF_vars(Profile) /\ WF_vars(Shex)

\* ---- invariants: each is a property clause set that must be empty (known findings are named, not hidden)
Observed == OpObs(out)
Crashed == OpCrashed(out)
NotKF(cs) == {c \in cs : SubSeq(c, 1, 3) # "KF."}
InvC10 == pc # "gen" => C10Inst(UNION {{<<n, k>> : k \in inst[n]} : n \in DOMAIN inst}) = {}
InvProfile == pc \in {"profiled", "done"} =>
   \A k \in DOMAIN profs :
      /\ \A q \in DOMAIN profs[k] : profs[k][q] = Count(k, q[1], q[2], q[3], q[4])
      /\ \A inv \in Dirs, t \in GF : Focus(t, inv) \in Inst(k) =>
            \A kind \in KindsOf(t, inv) : <<inv, P(t), kind, IF P(t) = cfg.instProp THEN 1 ELSE PLUS>> \in DOMAIN profs[k]
InvNoCrash == pc = "done" => ~Crashed
InvC01 == (pc = "done" /\ ~Crashed) => NotKF(C01(Observed)) = {}
InvC02 == (pc = "done" /\ ~Crashed) => NotKF(C02(Observed)) = {}
InvC03 == (pc = "done" /\ ~Crashed) => C03(Observed) \cup C03Local(Observed) = {}
InvC05 == (pc = "done" /\ ~Crashed) => C05Closed(Observed) = {}
InvC12 == (pc = "done" /\ ~Crashed) => C12Below(Observed) = {}
\* order independence (C09 at design level): whatever the order in which the document was built and whatever the
\* tie-break, the evidence outside the tie groups is the one the order-free declarative layer determines
DeclFacts == UNION {UNION {{<<k, q[1], q[2], q[3], q[4], Count(k, q[1], q[2], q[3], q[4])>> : q \in DOMAIN profs[k]} : k \in DOMAIN profs}}
InvOrderFree == (pc = "done" /\ ~Crashed) => OutsideTies(Facts(Observed)) \subseteq DeclFacts \cup {f \in Facts(Observed) : f[4] = "NONLITERAL"}
Terminates == <>(pc = "done")
\* vacuity guards: the model must reach states where the antecedents hold
SeenStrict == ~(pc = "done" /\ Strict /\ Cardinality(G) >= 3)
=============================================================================
