SPECIFICATION Spec
CONSTANTS
  U <- MC_U
  K = 4
  CfgSet <- MC_CfgPerm
  Perm = FALSE
INVARIANT InvOrderFree
INVARIANT InvC02
