-------------------------- MODULE Trace_LineReader --------------------------
(* L3/L2 for the line readers: each trace is a text (characters; "CR", "LF", "LS" name the special ones), the reader it was fed to  *)
(* (raw string, file, gz, xz, zip member) and the lines that reader handed on (line terminators and surrounding blanks removed, as *)
(* the statement scanners do).  They must be the non-blank lines of the text under the N-Triples / Turtle notion of line end.      *)
EXTENDS LineReader, Json, IOUtils
Traces == JsonDeserialize(IOEnv.TRACE_FILE)
VARIABLE tid
Tr == Traces[tid]
RECURSIVE StripSP(_)
StripSP(l) == IF l # <<>> /\ l[Len(l)] \in {SP, LS} THEN StripSP(SubSeq(l, 1, Len(l) - 1))       \* str.strip(): white space at both ends
              ELSE IF l # <<>> /\ l[1] \in {SP, LS} THEN StripSP(SubSeq(l, 2, Len(l))) ELSE l
Norm(ls) == [i \in 1..Len(ls) |-> StripSP(ls[i])]
Clauses == IF Tr.status # "ok" THEN {"C06.lines." \o Tr.status}
           ELSE IF Norm(Tr.lines) # Norm(SpecLines(Tr.text)) THEN {"C06.lines"} ELSE {}
Init == tid \in 1..Len(Traces)
Next == UNCHANGED tid
Spec == Init /\ [][Next]_tid
Report == PrintT(<<"VERDICT", Tr.id, Clauses, [reader |-> Tr.reader]>>)
=============================================================================
