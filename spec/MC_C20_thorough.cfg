SPECIFICATION Spec
CONSTANTS
  MaxSources = 7
  FormatSet = {"nt", "tsv_spo", "n3", "turtle", "xml", "json-ld", "turtle_iter", "bogus"}
  CompSet = {"none", "gz", "zip", "xz", "bogus"}
  ExampleSet = {"none", "shape", "cons", "all", "bogus"}
INVARIANT CtorAgrees
INVARIANT CallAgrees
