SPECIFICATION Spec
CONSTANTS
  MaxSources = 7
  FormatSet = {"nt", "tsv_spo", "n3", "turtle", "xml", "json-ld", "turtle_iter", "bogus", "NT", "Turtle", "N3", "ttl", "rdf/xml", ""}
  CompSet = {"none", "gz", "zip", "xz", "bogus", "GZ", "Zip", "gzip", ""}
  ExampleSet = {"none", "shape", "cons", "all", "bogus", "ALL", "Shape", "constraint", ""}
INVARIANT CtorAgrees
INVARIANT CallAgrees
