------------------------------ MODULE ShExCDoc ------------------------------
(***************************************************************************)
(* C05 (ShExC part): an acceptor for the ShExC subset sheXer emits, over   *)
(* the token stream of the emitted text, with its symbol table.            *)
(*   doc    := (PREFIX PNAME_NS IRIREF)*  shape*                           *)
(*   shape  := label ( "[" IRIREF "~" "]" AND )?  "{" ( tc ( ";" tc )* )? "}" annot?   *)
(*   tc     := "^"? iri value ( OR value )* card? annot*                   *)
(*   value  := "[" iri "]" | "@" label | IRI | BNode | NONLITERAL | iri    *)
(*   card   := "*" | "+" | "?" | "{n}"                                     *)
(*   annot  := "//" iri ( iri | STRING )            (examples_mode only)   *)
(* ShExC keywords are case-insensitive; sheXer writes them as below.       *)
(* A token is a record [t, a, b] (see harness/shexc.py lex).               *)
(***************************************************************************)
EXTENDS Integers, Sequences, FiniteSets, TLC
IsIri(tok) == tok.t \in {"IRIREF", "PNAME_LN", "PNAME_NS"}
IsKw(tok, w) == tok.t = "WORD" /\ tok.a = w
NodeKinds == {"IRI", "BNode", "NONLITERAL", "iri", "bnode", "nonliteral", "Literal", "LITERAL"}
\* state of the acceptor
St0 == [q |-> "top", prefixes |-> <<>>, used |-> {}, defined |-> <<>>, refs |-> {}, err |-> "", ret |-> ""]
Expand(st, tok) == IF tok.t = "IRIREF" THEN tok.a
                   ELSE IF \E i \in 1..Len(st.prefixes) : st.prefixes[i][1] = tok.a
                        THEN (LET i == CHOOSE j \in 1..Len(st.prefixes) : st.prefixes[j][1] = tok.a IN st.prefixes[i][2]) \o tok.b
                        ELSE "?undeclared:" \o tok.a \o ":" \o tok.b
Use(st, tok) == IF tok.t = "IRIREF" THEN st ELSE [st EXCEPT !.used = @ \cup {tok.a}]
Fail(st, why) == [st EXCEPT !.err = why, !.q = "dead"]
\* at the top level: a PREFIX directive (before the first shape) or a shape label
TopStep(st, tok) ==
  IF IsKw(tok, "PREFIX") \/ IsKw(tok, "prefix") THEN (IF st.defined = <<>> THEN [st EXCEPT !.q = "prefix1"] ELSE Fail(st, "PREFIX after a shape"))
  ELSE IF tok.t \in {"IRIREF", "PNAME_LN"} THEN [Use(st, tok) EXCEPT !.q = "label", !.defined = Append(@, Expand(st, tok))]
  ELSE Fail(st, "expected PREFIX or a shape label")
\* one token
Step(st, tok) ==
  IF st.q = "dead" THEN st
  ELSE CASE st.q = "top" -> TopStep(st, tok)
    [] st.q = "prefix1" -> IF tok.t = "PNAME_NS" THEN [st EXCEPT !.q = "prefix2", !.prefixes = Append(@, <<tok.a, "">>)] ELSE Fail(st, "expected a prefix")
    [] st.q = "prefix2" -> IF tok.t = "IRIREF" THEN [st EXCEPT !.q = "top", !.prefixes = [@ EXCEPT ![Len(@)] = <<@[1], tok.a>>]] ELSE Fail(st, "expected <namespace>")
    [] st.q = "label" -> IF tok.t = "{" THEN [st EXCEPT !.q = "body0"]
                         ELSE IF tok.t = "[" THEN [st EXCEPT !.q = "stem1"] ELSE Fail(st, "expected '{' after the label")
    [] st.q = "stem1" -> IF tok.t = "IRIREF" THEN [st EXCEPT !.q = "stem2"] ELSE Fail(st, "stem")
    [] st.q = "stem2" -> IF tok.t = "~" THEN [st EXCEPT !.q = "stem3"] ELSE Fail(st, "stem")
    [] st.q = "stem3" -> IF tok.t = "]" THEN [st EXCEPT !.q = "stem4"] ELSE Fail(st, "stem")
    [] st.q = "stem4" -> IF IsKw(tok, "AND") THEN [st EXCEPT !.q = "label2"] ELSE Fail(st, "expected AND")
    [] st.q = "label2" -> IF tok.t = "{" THEN [st EXCEPT !.q = "body0"] ELSE Fail(st, "expected '{'")
    [] st.q = "body0" ->                                       \* start of a shape body: a constraint or '}'
         IF tok.t = "}" THEN [st EXCEPT !.q = "closed"]
         ELSE IF tok.t = "^" THEN [st EXCEPT !.q = "pred"]
         ELSE IF tok.t \in {"IRIREF", "PNAME_LN"} THEN [Use(st, tok) EXCEPT !.q = "value"]
         ELSE IF IsKw(tok, "a") THEN [st EXCEPT !.q = "value"]
         ELSE Fail(st, "expected a triple constraint or '}'")
    [] st.q = "tc" ->                                          \* after ';': a constraint is mandatory ("; }" is not ShExC 2.0 ... it is: trailing ';' allowed)
         IF tok.t = "^" THEN [st EXCEPT !.q = "pred"]
         ELSE IF tok.t \in {"IRIREF", "PNAME_LN"} THEN [Use(st, tok) EXCEPT !.q = "value"]
         ELSE IF IsKw(tok, "a") THEN [st EXCEPT !.q = "value"]
         ELSE IF tok.t = "}" THEN [st EXCEPT !.q = "closed"]
         ELSE Fail(st, "expected a triple constraint")
    [] st.q = "pred" -> IF tok.t \in {"IRIREF", "PNAME_LN"} THEN [Use(st, tok) EXCEPT !.q = "value"]
                        ELSE IF IsKw(tok, "a") THEN [st EXCEPT !.q = "value"] ELSE Fail(st, "expected a predicate")
    [] st.q = "value" ->
         IF tok.t = "[" THEN [st EXCEPT !.q = "vs1"]
         ELSE IF tok.t = "@" THEN [st EXCEPT !.q = "ref"]
         ELSE IF tok.t = "WORD" /\ tok.a \in NodeKinds THEN [st EXCEPT !.q = "aftervalue"]
         ELSE IF tok.t \in {"IRIREF", "PNAME_LN"} THEN [Use(st, tok) EXCEPT !.q = "aftervalue"]
         ELSE Fail(st, "expected a value expression")
    [] st.q = "vs1" -> IF tok.t \in {"IRIREF", "PNAME_LN"} THEN [Use(st, tok) EXCEPT !.q = "vs2"] ELSE Fail(st, "value set")
    [] st.q = "vs2" -> IF tok.t = "]" THEN [st EXCEPT !.q = "aftervalue"]
                       ELSE IF tok.t \in {"IRIREF", "PNAME_LN"} THEN Use(st, tok) ELSE Fail(st, "value set")
    [] st.q = "ref" -> IF tok.t \in {"IRIREF", "PNAME_LN"} THEN [Use(st, tok) EXCEPT !.q = "aftervalue", !.refs = @ \cup {Expand(st, tok)}]
                       ELSE Fail(st, "expected a shape label after '@'")
    [] st.q = "aftervalue" ->
         IF IsKw(tok, "OR") THEN [st EXCEPT !.q = "value"]
         ELSE IF tok.t \in {"*", "+", "?", "CARD"} THEN [st EXCEPT !.q = "aftercard"]
         ELSE IF tok.t = ";" THEN [st EXCEPT !.q = "tc"]
         ELSE IF tok.t = "}" THEN [st EXCEPT !.q = "closed"]
         ELSE IF tok.t = "ANNOT" THEN [st EXCEPT !.q = "annot1", !.ret = "aftercard"]
         ELSE Fail(st, "after a value expression")
    [] st.q = "aftercard" ->
         IF tok.t = ";" THEN [st EXCEPT !.q = "tc"]
         ELSE IF tok.t = "}" THEN [st EXCEPT !.q = "closed"]
         ELSE IF tok.t = "ANNOT" THEN [st EXCEPT !.q = "annot1", !.ret = "aftercard"]
         ELSE Fail(st, "expected ';' or '}'")
    [] st.q = "annot1" -> IF tok.t \in {"IRIREF", "PNAME_LN"} THEN [Use(st, tok) EXCEPT !.q = "annot2"] ELSE Fail(st, "annotation predicate")
    [] st.q = "annot2" -> IF tok.t \in {"IRIREF", "PNAME_LN", "STRING"} THEN [(IF tok.t = "STRING" THEN st ELSE Use(st, tok)) EXCEPT !.q = st.ret]
                          ELSE Fail(st, "annotation object")
    [] st.q = "closed" ->                                      \* after '}': an annotation of the shape, a new label, or the end
         IF tok.t = "ANNOT" THEN [st EXCEPT !.q = "annot1", !.ret = "top2"]
         ELSE TopStep(st, tok)
    [] st.q = "top2" -> TopStep(st, tok)
    [] OTHER -> Fail(st, "unknown state")
RECURSIVE Run(_, _, _)
Run(toks, i, st) == IF i > Len(toks) THEN st ELSE Run(toks, i + 1, Step(st, toks[i]))
Accept(toks) == Run(toks, 1, St0)
\* ---- verdict clauses
DeclaredPrefixes(st) == {st.prefixes[i][1] : i \in 1..Len(st.prefixes)}
Clauses(toks, lexerr) ==
  LET st == Accept(toks) IN
  (IF lexerr # -1 THEN {"C05.lexical"} ELSE {}) \cup
  (IF st.q \notin {"top", "closed", "top2"} \/ st.err # "" THEN {"C05.syntax"} ELSE {}) \cup
  (IF \E i, j \in 1..Len(st.prefixes) : i # j /\ st.prefixes[i][1] = st.prefixes[j][1] /\ st.prefixes[i][2] # st.prefixes[j][2]
   THEN {"C05.prefixmap"} ELSE {}) \cup
  (IF ~(st.used \subseteq DeclaredPrefixes(st)) THEN {"C05.undeclared"} ELSE {}) \cup
  (IF \E i, j \in 1..Len(st.defined) : i # j /\ st.defined[i] = st.defined[j] THEN {"C05.duplabel"} ELSE {}) \cup
  (IF ~(st.refs \subseteq {st.defined[i] : i \in 1..Len(st.defined)}) THEN {"C05.dangling"} ELSE {})
=============================================================================
