------------------------------- MODULE MinIri -------------------------------
(***************************************************************************)
(* C17: the IRI stem of a shape (detect_minimal_iri).  Text = sequence of  *)
(* one-character strings.                                                  *)
(*  declarative : the longest common prefix of all instance IRIs that ends *)
(*                at a separator (':', '/', '#'); none when shorter than   *)
(*                three characters or just a scheme (http://, urn:, ...)   *)
(*  operational : the fold the profiler performs (first instance, then     *)
(*                longest_common_prefix pairwise in tracking order) and    *)
(*                the cut-back of AnnotateMinIriStrategy                   *)
(***************************************************************************)
EXTENDS Integers, Sequences, FiniteSets, TLC, SequencesExt
Seps == {":", "/", "#"}
IsPrefixOf(p, s) == Len(p) <= Len(s) /\ SubSeq(s, 1, Len(p)) = p
Letters == {"a", "b", "c", "d", "e", "f", "g", "h", "i", "j", "k", "l", "m", "n", "o", "p", "q", "r", "s", "t", "u", "v", "w", "x", "y", "z",
            "A", "B", "C", "D", "E", "F", "G", "H", "I", "J", "K", "L", "M", "N", "O", "P", "Q", "R", "S", "T", "U", "V", "W", "X", "Y", "Z"}
SchemeChars == Letters \cup {"0", "1", "2", "3", "4", "5", "6", "7", "8", "9", "+", ".", "-"}
\* scheme ":" "/"*   and nothing else
JustAScheme(p) == /\ Len(p) >= 2 /\ p[1] \in Letters
                  /\ \E c \in 2..Len(p) : /\ p[c] = ":"
                                          /\ \A i \in 2..(c - 1) : p[i] \in SchemeChars
                                          /\ \A i \in (c + 1)..Len(p) : p[i] = "/"
\* ---- declarative
CommonStems(iris) == {n \in 1..Len(CHOOSE x \in iris : TRUE) :
                        LET p == SubSeq(CHOOSE x \in iris : TRUE, 1, n) IN p[n] \in Seps /\ \A s \in iris : IsPrefixOf(p, s)}
StemSpec(iris) ==        \* <<>> = no stem
  IF iris = {} \/ CommonStems(iris) = {} THEN <<>>
  ELSE LET n == CHOOSE m \in CommonStems(iris) : \A k \in CommonStems(iris) : k <= m
           p == SubSeq(CHOOSE x \in iris : TRUE, 1, n)
       IN IF n < 3 \/ JustAScheme(p) THEN <<>> ELSE p
\* ---- operational: shexer.utils.uri.longest_common_prefix, the profiler's fold, the cut-back
LcpLen(a, b) == LET m == IF Len(a) < Len(b) THEN Len(a) ELSE Len(b)
                    diff == {i \in 1..m : a[i] # b[i]}
                IN IF diff = {} THEN m ELSE (CHOOSE i \in diff : \A j \in diff : i <= j) - 1
Lcp(a, b) == SubSeq(a, 1, LcpLen(a, b))
RECURSIVE FoldLcp(_, _, _)
FoldLcp(seq, i, acc) == IF i > Len(seq) THEN acc ELSE FoldLcp(seq, i + 1, Lcp(seq[i], acc))
CutBack(p) == LET idx == {i \in 1..Len(p) : p[i] \in Seps} IN
              IF idx = {} THEN <<>>
              ELSE LET c == SubSeq(p, 1, CHOOSE i \in idx : \A j \in idx : j <= i) IN
                   IF Len(c) < 3 \/ JustAScheme(c) THEN <<>> ELSE c
StemImpl(seq) == IF seq = <<>> THEN <<>> ELSE CutBack(FoldLcp(seq, 2, seq[1]))
=============================================================================
