----------------------------- MODULE LineReader -----------------------------
(***************************************************************************)
(* The line readers under every streaming yielder (raw string, plain file, *)
(* gz / xz / zip member).  A text is a sequence of characters; a line ends *)
(* at LF, at CR LF or at a lone CR - the line ends of N-Triples / Turtle   *)
(* (EOL ::= [#xD#xA]+) and of a file opened in text mode - and NOT at the  *)
(* other characters Unicode calls line boundaries (U+2028, U+0085, form    *)
(* feed ...; "LS" stands for them: inside a literal they are data).  Every *)
(* reader must hand on the same non-blank lines, in order.                 *)
(*   SpecLines : the definition                                            *)
(*   SplitAtLF : what cutting at '\n' only yields (the defect repaired by  *)
(*               fixes b87464f / 69d8fcd; kept to show the model rejects it)*)
(*   SplitLinesPy : str.splitlines() (seeded changes C06-d / C08-d)        *)
(***************************************************************************)
EXTENDS Integers, Sequences, FiniteSets, TLC
CR == "CR"  LF == "LF"  LS == "LS"  SP == " "
\* (a line that holds nothing but white space - the Unicode separators count as such - holds no statement)
IsBlank(l) == \A i \in 1..Len(l) : l[i] \in {SP, LS}
\* length of the line end that starts at position i under a given notion of line end (0: none)
EolLen(mode, t, i) ==
  CASE mode = "spec" -> IF t[i] = CR /\ i < Len(t) /\ t[i + 1] = LF THEN 2 ELSE IF t[i] \in {CR, LF} THEN 1 ELSE 0
    [] mode = "lfonly" -> IF t[i] = LF THEN 1 ELSE 0
    [] mode = "splitlines" -> IF t[i] = CR /\ i < Len(t) /\ t[i + 1] = LF THEN 2 ELSE IF t[i] \in {CR, LF, LS} THEN 1 ELSE 0
\* cut the text at every line end
RECURSIVE Cut(_, _, _, _, _)
Cut(mode, t, i, cur, acc) ==
  IF i > Len(t) THEN Append(acc, cur)
  ELSE LET n == EolLen(mode, t, i) IN
       IF n > 0 THEN Cut(mode, t, i + n, <<>>, Append(acc, cur)) ELSE Cut(mode, t, i + 1, Append(cur, t[i]), acc)
NonBlank(ls) == SelectSeq(ls, LAMBDA l : ~IsBlank(l))
SpecLines(t) == NonBlank(Cut("spec", t, 1, <<>>, <<>>))
\* a CR left at the end of a line by an LF-only cut is stripped later by the statement scanners (str.strip): lines are compared
\* after removing it, so that SplitAtLF differs from the specification only where it really loses a line
RECURSIVE StripCR(_)
StripCR(l) == IF l # <<>> /\ l[Len(l)] = CR THEN StripCR(SubSeq(l, 1, Len(l) - 1))
              ELSE IF l # <<>> /\ l[1] = CR THEN StripCR(SubSeq(l, 2, Len(l))) ELSE l
SplitAtLF(t) == LET ls == Cut("lfonly", t, 1, <<>>, <<>>) IN NonBlank([i \in 1..Len(ls) |-> StripCR(ls[i])])
SplitLinesPy(t) == NonBlank(Cut("splitlines", t, 1, <<>>, <<>>))
=============================================================================
