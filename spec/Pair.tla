------------------------------- MODULE Pair -------------------------------
(***************************************************************************)
(* Product construction for the relational properties at design level:     *)
(* one document (and, for C14, its reversal) run through the operational   *)
(* model under two (three) related configurations; the relations of        *)
(* module Relations are the invariants.                                    *)
(***************************************************************************)
EXTENDS Relations
CONSTANTS U, K, Pairs, Rel      \* Pairs: set of <<cfgA, cfgB>> ; Rel: the relation that must hold
VARIABLES last, pc
vars == <<da, ca, db, cb, dc, cc, last, pc>>
ReverseDoc(d) == [i \in 1..Len(d) |-> IF d[i][2] # ca.instProp /\ d[i][3][1] \in {"IRI", "BNode"} THEN <<d[i][3], d[i][2], d[i][1]>> ELSE d[i]]
Init == /\ da = <<>> /\ db = <<>> /\ dc = <<>> /\ last = 0 /\ pc = "gen"
        /\ \E pr \in Pairs : ca = pr[1] /\ cb = pr[2] /\ cc = pr[2]
GenAdd == /\ pc = "gen" /\ Len(da) < K
          /\ \E i \in (last + 1)..Len(U) :
               /\ da' = Append(da, U[i]) /\ db' = Append(db, U[i]) /\ last' = i
               /\ dc' = ReverseDoc(Append(da, U[i]))
          /\ UNCHANGED <<ca, cb, cc, pc>>
Run == pc = "gen" /\ pc' = "done" /\ UNCHANGED <<da, ca, db, cb, dc, cc, last>>
Next == GenAdd \/ Run \/ (pc = "done" /\ UNCHANGED vars)
Spec == Init /\ [][Next]_vars
OA == A!OpObs(A!OpOut)
OB == B!OpObs(B!OpOut)
OC == CR!OpObs(CR!OpOut)
Verdict == CASE Rel = "thr" -> Thr(OA, OB)
             [] Rel = "present" -> Present(OA, OB)
             [] Rel = "relax" -> Relax(OA, OB)
             [] Rel = "noopt" -> NoOpt(OA, OB)
             [] Rel = "noexact" -> NoExact(OA, OB)
             [] Rel = "or" -> Or(OA, OB)
             [] Rel = "inverse" -> InverseRel(OA, OB, OC)
             [] Rel = "same" -> Same("C16", "", OA, OB)
NotKF(cs) == {c \in cs : SubSeq(c, 1, 3) # "KF."}
RelHolds == (pc = "done" /\ ~A!OpCrashed(A!OpOut) /\ ~B!OpCrashed(B!OpOut)) => NotKF(Verdict) = {}
=============================================================================
