SPECIFICATION Spec
CONSTANTS
  U <- MC_Usmall
  K = 3
  CfgSet <- MC_CfgStrict
  Perm = FALSE
INVARIANT InvC03
