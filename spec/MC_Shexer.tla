---------------------------- MODULE MC_Shexer ----------------------------
EXTENDS Shexer
T == "rdf:type"
a == <<"IRI", "ex:a">>
b == <<"IRI", "ex:b">>
x == <<"BNode", "_:x">>
u == <<"IRI", "ex:u">>
CC1 == <<"IRI", "ex:C">>
CD1 == <<"IRI", "ex:D">>
s1 == <<"xsd:string", "s1">>
s2 == <<"xsd:string", "s2">>
i1 == <<"xsd:integer", "1">>
\* 30-triple universe: two IRI nodes and a blank node, two classes, two properties, every kind of object
MC_U == <<
  <<a, T, CC1>>, <<b, T, CC1>>, <<x, T, CC1>>, <<a, T, CD1>>, <<b, T, CD1>>, <<x, T, CD1>>,
  <<a, "ex:p", b>>, <<a, "ex:p", u>>, <<a, "ex:p", x>>, <<a, "ex:p", s1>>, <<a, "ex:p", s2>>, <<a, "ex:p", i1>>,
  <<b, "ex:p", a>>, <<b, "ex:p", u>>, <<b, "ex:p", x>>, <<b, "ex:p", s1>>, <<b, "ex:p", s2>>, <<b, "ex:p", i1>>,
  <<x, "ex:p", a>>, <<x, "ex:p", b>>, <<x, "ex:p", s1>>, <<x, "ex:p", i1>>,
  <<a, "ex:q", b>>, <<a, "ex:q", s1>>, <<b, "ex:q", a>>, <<b, "ex:q", s1>>, <<x, "ex:q", a>>, <<x, "ex:q", s1>>,
  <<u, "ex:p", a>>, <<a, "ex:p", a>>
>>
\* reduced universe for the quick tier / permutation mode
MC_Usmall == <<
  <<a, T, CC1>>, <<b, T, CC1>>, <<x, T, CC1>>, <<b, T, CD1>>, <<x, T, CD1>>,
  <<a, "ex:p", b>>, <<a, "ex:p", u>>, <<a, "ex:p", x>>, <<a, "ex:p", s1>>, <<a, "ex:p", i1>>,
  <<b, "ex:p", a>>, <<b, "ex:p", x>>, <<b, "ex:p", s1>>, <<b, "ex:p", s2>>,
  <<x, "ex:p", a>>, <<x, "ex:p", s1>>, <<u, "ex:p", a>>, <<a, "ex:p", a>>
>>
B == {TRUE, FALSE}
Base == [instProp |-> T, mode |-> "all", targets |-> <<>>, items |-> <<>>, thr |-> <<0, 1>>, inverse |-> FALSE,
         allCompliant |-> TRUE, keepLess |-> TRUE, discardUseless |-> TRUE, allowOpt |-> TRUE, disableExact |-> FALSE,
         disableOr |-> TRUE, redundantOr |-> FALSE, removeEmpty |-> TRUE, cap |-> 0, ignoreNs |-> <<>>, salt |-> 0,
         decimals |-> -1]
\* the 2^5 inference switches x thresholds x inverse
MC_CfgSwitches == {[Base EXCEPT !.thr = t, !.keepLess = kl, !.discardUseless = du, !.allCompliant = ac, !.allowOpt = ao,
                                !.disableExact = de, !.inverse = iv, !.salt = sa] :
                     t \in {<<0, 1>>, <<1, 2>>, <<2, 3>>, <<1, 1>>}, kl \in B, du \in B, ac \in B, ao \in B, de \in B, iv \in B, sa \in {0, 1}}
MC_CfgQuick == {[Base EXCEPT !.thr = t, !.keepLess = kl, !.allCompliant = ac, !.inverse = iv, !.disableExact = de] :
                     t \in {<<0, 1>>, <<1, 2>>, <<1, 1>>}, kl \in B, ac \in B, iv \in B, de \in B}
\* C03's strict domain: all-compliant, threshold 0, keep_less_specific
MC_CfgStrict == {[Base EXCEPT !.discardUseless = du, !.allowOpt = ao, !.disableExact = de, !.inverse = iv] :
                     du \in B, ao \in B, de \in B, iv \in B}
\* targets, cap, OR, empty shapes
MC_CfgTargets == {[Base EXCEPT !.mode = "classes", !.targets = tg, !.cap = cp, !.removeEmpty = re, !.thr = t] :
                     tg \in {<<"ex:C">>, <<"ex:D">>, <<"ex:C", "ex:D">>, <<"ex:D", "ex:E">>}, cp \in {0, 1, 2}, re \in B, t \in {<<0, 1>>, <<1, 1>>}}
                 \cup {[Base EXCEPT !.cap = cp, !.inverse = iv] : cp \in {1, 2}, iv \in B}
MC_CfgOr == {[Base EXCEPT !.disableOr = FALSE, !.redundantOr = ro, !.thr = t, !.inverse = iv] : ro \in B, t \in {<<0, 1>>, <<1, 2>>}, iv \in B}
MC_CfgC01 == {[Base EXCEPT !.thr = t, !.keepLess = kl, !.inverse = iv, !.disableExact = de, !.allCompliant = ac] :
                 t \in {<<0, 1>>, <<1, 2>>}, kl \in B, iv \in B, de \in B, ac \in B}
MC_CfgC02 == {[Base EXCEPT !.thr = t, !.keepLess = kl, !.inverse = iv, !.removeEmpty = re] :
                 t \in {<<0, 1>>, <<1, 2>>, <<2, 3>>, <<1, 1>>}, kl \in B, iv \in B, re \in B}
MC_CfgC04 == MC_CfgQuick \cup MC_CfgOr \cup MC_CfgTargets
\* permutation mode: small universe, every ordering of every subset; both tie-break salts; the cap makes order matter
MC_Uperm == <<
  <<a, T, CC1>>, <<b, T, CC1>>, <<x, T, CC1>>, <<b, T, CD1>>,
  <<a, "ex:p", b>>, <<a, "ex:p", x>>, <<a, "ex:p", s1>>, <<b, "ex:p", a>>, <<b, "ex:p", s1>>, <<x, "ex:p", a>>
>>
MC_CfgPerm == {[Base EXCEPT !.keepLess = kl, !.salt = sa, !.thr = t, !.inverse = iv] : kl \in B, sa \in {0, 1}, t \in {<<0, 1>>, <<1, 2>>}, iv \in B}
\* closure of references: thresholds that empty shapes, remove_empty_shapes on / off, class targets, ignored rdf namespace
MC_CfgC05 == {[Base EXCEPT !.thr = t, !.removeEmpty = re, !.inverse = iv, !.mode = md[1], !.targets = md[2], !.ignoreNs = ig] :
                 t \in {<<0, 1>>, <<1, 2>>, <<1, 1>>}, re \in B, iv \in B, md \in {<<"all", <<>>>>, <<"classes", <<"ex:C">>>>, <<"classes", <<"ex:C", "ex:D">>>>},
                 ig \in {<<>>, <<"rdf:">>}}
=============================================================================
