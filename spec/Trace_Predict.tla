--------------------------- MODULE Trace_Predict ---------------------------
(* developer aid: prints what the operational model predicts for the logged document and configuration of each trace *)
EXTENDS Integers, Sequences, FiniteSets, TLC, Json, IOUtils, SequencesExt, FiniteSetsExt
Traces == JsonDeserialize(IOEnv.TRACE_FILE)
VARIABLE tid
Tr == Traces[tid]
C == INSTANCE Core WITH doc <- Tr.graph, cfg <- Tr.cfg
Init == tid \in 1..Len(Traces)
Next == UNCHANGED tid
Spec == Init /\ [][Next]_tid
Report == PrintT(<<"VERDICT", Tr.id, {}, [predicted |-> C!OpObs(C!OpOut), tie |-> C!OpTie]>>)
=============================================================================
