------------------------------- MODULE Core -------------------------------
(***************************************************************************)
(* sheXer as the specification sees it.                                    *)
(*                                                                         *)
(* Two layers over the same two state functions:                           *)
(*   doc : the document, a sequence of triples <<s, p, o>> in the order    *)
(*         the reader yields them; s, o are terms <<kind, id>> with        *)
(*         kind \in {"IRI","BNode"} \cup datatype IRIs, p a string         *)
(*   cfg : every option that changes behaviour (record, see MkCfg)         *)
(*                                                                         *)
(* DECLARATIVE layer : what the listed properties mean, as set             *)
(*   comprehensions over ToSet(doc) (order free except FirstK, which is    *)
(*   what instances_cap is documented to do).                              *)
(* OPERATIONAL layer : implementation-shaped stage operators               *)
(*   TrackF -> FeatF -> ProfF -> CandF -> SelectF -> MergeF -> TuneF ->    *)
(*   CleanF, one per loop / stage of the real code, partial where the      *)
(*   code is partial (CRASH), with the tie-breaks the code takes from      *)
(*   dict-insertion order left to a salt (cfg.salt).                       *)
(*                                                                         *)
(* doc and cfg are VARIABLES so that MC_Shexer (generator + pipeline as a  *)
(* state machine) can EXTEND this module and Trace_Shexer can INSTANCE it  *)
(* with doc/cfg bound to what the implementation logged.                   *)
(***************************************************************************)
EXTENDS Integers, Sequences, FiniteSets, TLC, SequencesExt, FiniteSetsExt

VARIABLES doc, cfg

PLUS == 0      \* cardinality '+'
STAR == -1     \* '*'
OPT  == -2     \* '?'
\* an exact cardinality {k} is the integer k >= 1 ; "no cardinality" is 1

S(t) == t[1]
P(t) == t[2]
O(t) == t[3]
G == ToSet(doc)
IsNodeT(x) == x[1] \in {"IRI", "BNode"}
Nodes == {S(t) : t \in G} \cup {O(t) : t \in {x \in G : IsNodeT(O(x))}}

DIRECT == FALSE
INVERSE == TRUE
Dirs == IF cfg.inverse THEN {DIRECT, INVERSE} ELSE {DIRECT}
Focus(t, inv) == IF inv THEN O(t) ELSE S(t)
Other(t, inv) == IF inv THEN S(t) ELSE O(t)

FreqOK(n, N, thr) == n * thr[2] >= thr[1] * N      \* float(n)/N >= num/den for the small integers used here

(***************************************************************************)
(* Namespaces: "direct child" as documented for namespaces_to_ignore       *)
(***************************************************************************)
StartsWith(s, pre) == Len(s) >= Len(pre) /\ SubSeq(s, 1, Len(pre)) = pre
DirectChild(p, ns) == /\ StartsWith(p, ns)
                      /\ \A i \in (Len(ns) + 1)..Len(p) : SubSeq(p, i, i) \notin {"/", "#"}
Ignored(p) == \E i \in 1..Len(cfg.ignoreNs) : DirectChild(p, cfg.ignoreNs[i])
\* the graph the feature pass sees (class membership is read from the full graph)
GF == {t \in G : ~Ignored(P(t))}

(***************************************************************************)
(* TARGETS (declarative): what a target specification denotes              *)
(*  cfg.mode \in {"all","classes","shapemap","mixed"}                      *)
(*  cfg.targets : sequence of class ids (mode classes)                     *)
(*  cfg.items   : sequence of [label, kind \in {"node","pattern"},         *)
(*                 node : term, ps, pp, po : pattern slots                 *)
(*                 slot = <<"FOCUS","">> | <<"ANY","">> | <<"IRI", iri>>   *)
(*                       | <<"LIT", dt, lex>> is not supported by sheXer   *)
(***************************************************************************)
\* instances_file_input: class membership (pass 1) is read from a document of its own when one is given, the features (pass 2)
\* always from doc.  (Behaviour beyond the listed properties: judged as model conformance, never as a property verdict.)
IDoc == IF "instDoc" \in DOMAIN cfg /\ Len(cfg.instDoc) > 0 THEN cfg.instDoc ELSE doc
TypeTriples == {t \in ToSet(IDoc) : P(t) = cfg.instProp /\ IsNodeT(O(t))}
AllClassIds == {O(t)[2] : t \in TypeTriples}
\* k-th prefix of the document
RECURSIVE FirstKR(_, _, _, _)
FirstKR(pos, c, left, acc) ==
  IF pos > Len(IDoc) \/ left = 0 THEN acc
  ELSE LET t == IDoc[pos] IN
       IF P(t) = cfg.instProp /\ IsNodeT(O(t)) /\ O(t)[2] = c /\ S(t) \notin acc
       THEN FirstKR(pos + 1, c, left - 1, acc \cup {S(t)})
       ELSE FirstKR(pos + 1, c, left, acc)
ClassInstAll(c) == {S(t) : t \in {x \in TypeTriples : O(x)[2] = c}}
ClassInst(c) == IF cfg.cap > 0 THEN FirstKR(1, c, cfg.cap, {}) ELSE ClassInstAll(c)

SlotOK(slot, term) == CASE slot[1] = "ANY" -> TRUE
                        [] slot[1] = "FOCUS" -> TRUE
                        [] OTHER -> term = <<slot[1], slot[2]>>
ItemDenote(it) ==
  IF it.kind = "node" THEN {it.node}
  ELSE IF it.ps[1] = "FOCUS"
       THEN {S(t) : t \in {x \in G : P(x) = it.pp /\ SlotOK(it.po, O(x))}}
       ELSE {O(t) : t \in {x \in G : P(x) = it.pp /\ SlotOK(it.ps, S(x)) /\ IsNodeT(O(x))}}
ItemLabels == {cfg.items[i].label : i \in 1..Len(cfg.items)}
LabelInst(l) == UNION {ItemDenote(cfg.items[i]) : i \in {j \in 1..Len(cfg.items) : cfg.items[j].label = l}}

\* shape keys: class ids and/or shape-map labels
ClassKeys == CASE cfg.mode = "all" -> AllClassIds
               [] cfg.mode = "classes" -> ToSet(cfg.targets)
               [] cfg.mode = "shapemap" -> {}
               [] cfg.mode = "mixed" -> AllClassIds
LabelKeys == IF cfg.mode \in {"shapemap", "mixed"} THEN ItemLabels ELSE {}
Keys == ClassKeys \cup LabelKeys
Inst(k) == (IF k \in ClassKeys THEN ClassInst(k) ELSE {}) \cup (IF k \in LabelKeys THEN LabelInst(k) ELSE {})
KeysOf(n) == {k \in Keys : n \in Inst(k)}
CC(k) == Cardinality(Inst(k))
LiveKeys == {k \in Keys : Inst(k) # {}}

(***************************************************************************)
(* FEATURES (declarative)                                                  *)
(***************************************************************************)
Sh(k) == "@" \o k
IsShape(k) == Len(k) > 0 /\ SubSeq(k, 1, 1) = "@"
KeyOfShape(k) == SubSeq(k, 2, Len(k))
\* kinds a triple contributes to its focus node, per direction
KindsOf(t, inv) ==
  IF P(t) = cfg.instProp THEN {Other(t, inv)[2]}                       \* value set: the concrete class / subject
  ELSE {Other(t, inv)[1]} \cup
       (IF (IF inv THEN Other(t, inv)[1] = "IRI" ELSE IsNodeT(Other(t, inv)))
        THEN {Sh(k) : k \in KeysOf(Other(t, inv))} ELSE {})
KMatch(t, inv, k) == IF k = "NONLITERAL" THEN IsNodeT(Other(t, inv)) /\ P(t) # cfg.instProp
                     ELSE k \in KindsOf(t, inv)
TriplesOf(n, inv, p) == {t \in GF : P(t) = p /\ Focus(t, inv) = n}
DN(n, inv, p, k) == Cardinality({t \in TriplesOf(n, inv, p) : KMatch(t, inv, k)})
\* number of instances of key with exactly card values (at least one for PLUS) of kind k
Count(key, inv, p, k, card) ==
  Cardinality({n \in Inst(key) : IF card = PLUS \/ p = cfg.instProp THEN DN(n, inv, p, k) >= 1 ELSE DN(n, inv, p, k) = card})
\* value class of a kind: the C02 key
VC(p, k) == IF p = cfg.instProp THEN k
            ELSE IF k \in {"IRI", "BNode", "NONLITERAL"} \/ IsShape(k) THEN "nonliteral" ELSE k
VCOfTriple(t, inv) == IF P(t) = cfg.instProp THEN Other(t, inv)[2]
                      ELSE IF IsNodeT(Other(t, inv)) THEN "nonliteral" ELSE Other(t, inv)[1]
HasVC(n, inv, p, vc) == \E t \in TriplesOf(n, inv, p) : VCOfTriple(t, inv) = vc
VCCount(key, inv, p, vc) == Cardinality({n \in Inst(key) : HasVC(n, inv, p, vc)})
ObservedKeys(key) == {<<inv, P(t), VCOfTriple(t, inv)>> : inv \in Dirs, t \in {x \in GF : TRUE}}
ExpectedKeys(key) == {q \in ObservedKeys(key) :
                        /\ VCCount(key, q[1], q[2], q[3]) > 0
                        /\ FreqOK(VCCount(key, q[1], q[2], q[3]), CC(key), cfg.thr)}
\* the deviation of known finding KF-C02-mixed: the threshold is applied per node kind before the node kinds are merged
KindsPresent(key, inv, p) == UNION {KindsOf(t, inv) : t \in UNION {TriplesOf(n, inv, p) : n \in Inst(key)}}
SomeKindPasses(key, inv, p) ==
  \E k \in {x \in KindsPresent(key, inv, p) : x \in {"IRI", "BNode"} \/ IsShape(x)} :
       FreqOK(Count(key, inv, p, k, PLUS), CC(key), cfg.thr)

(***************************************************************************)
(* OPERATIONAL layer                                                       *)
(***************************************************************************)
\* ---- pass 1: instance tracker (class modes walk the document; the cap keeps the first k)
EmptyF == [x \in {} |-> {}]
AddTo(f, n, k) == IF n \in DOMAIN f THEN [f EXCEPT ![n] = @ \cup {k}] ELSE f @@ (n :> {k})
CountOf(f, c) == IF c \in DOMAIN f THEN f[c] ELSE 0
RECURSIVE TrackR(_, _, _, _)
TrackR(pos, inst, counts, done) ==
  IF pos > Len(IDoc) THEN [inst |-> inst, stoppedAt |-> 0]
  ELSE LET t == IDoc[pos]
           c == O(t)[2]
           relevant == /\ P(t) = cfg.instProp /\ IsNodeT(O(t))
                       /\ (cfg.mode \in {"all", "mixed"} \/ c \in ToSet(cfg.targets))
                       /\ (cfg.cap > 0 => CountOf(counts, c) < cfg.cap)
       IN IF ~relevant THEN TrackR(pos + 1, inst, counts, done)
          ELSE LET inst2 == AddTo(inst, S(t), c)
                   counts2 == [x \in DOMAIN counts \cup {c} |-> CountOf(counts, x) + (IF x = c THEN 1 ELSE 0)]
                   done2 == IF cfg.cap > 0 /\ counts2[c] = cfg.cap THEN done + 1 ELSE done
               IN IF cfg.cap > 0 /\ cfg.mode = "classes" /\ done2 = Len(cfg.targets)
                  THEN [inst |-> inst2, stoppedAt |-> pos]             \* InstancesCapException: stop reading
                  ELSE TrackR(pos + 1, inst2, counts2, done2)
RECURSIVE TrackItems(_, _)
TrackItems(i, inst) ==
  IF i > Len(cfg.items) THEN inst
  ELSE LET it == cfg.items[i]
           ns == ItemDenote(it)
           add == [n \in ns |-> {it.label}]
       IN TrackItems(i + 1, [n \in DOMAIN inst \cup ns |->
                               (IF n \in DOMAIN inst THEN inst[n] ELSE {}) \cup (IF n \in ns THEN {it.label} ELSE {})])
TrackF == CASE cfg.mode \in {"all", "classes"} -> TrackR(1, EmptyF, [x \in {} |-> 0], 0).inst
            [] cfg.mode = "shapemap" -> TrackItems(1, EmptyF)
            [] cfg.mode = "mixed" -> TrackItems(1, TrackR(1, EmptyF, [x \in {} |-> 0], 0).inst)
StoppedAt == IF cfg.mode = "classes" THEN TrackR(1, EmptyF, [x \in {} |-> 0], 0).stoppedAt ELSE 0
OpInst(inst, k) == {n \in DOMAIN inst : k \in inst[n]}
OpKeys(inst) == UNION {inst[n] : n \in DOMAIN inst}

\* ---- pass 2 + profile: (key, inv, p, kind, card) |-> number of instances ; as the code builds it
OpKindsOf(inst, t, inv) ==
  IF P(t) = cfg.instProp THEN {Other(t, inv)[2]}
  ELSE {Other(t, inv)[1]} \cup
       (IF (IF inv THEN Other(t, inv)[1] = "IRI" ELSE IsNodeT(Other(t, inv))) /\ Other(t, inv) \in DOMAIN inst
        THEN {Sh(k) : k \in inst[Other(t, inv)]} ELSE {})
OpDN(inst, n, inv, p, k) == Cardinality({t \in TriplesOf(n, inv, p) : k \in OpKindsOf(inst, t, inv)})
\* profile entries of one key: (inv, p, kind, card) |-> number of instances
ProfOf(inst, key) ==
  LET members == OpInst(inst, key)
      trs(inv) == {t \in GF : Focus(t, inv) \in members}
      feats3 == UNION {UNION {{<<inv, P(t), k>> : k \in OpKindsOf(inst, t, inv)} : t \in trs(inv)} : inv \in Dirs}
      cardsOf(f) == IF f[2] = cfg.instProp THEN {1}
                    ELSE {PLUS} \cup {OpDN(inst, n, f[1], f[2], f[3]) : n \in {m \in members : OpDN(inst, m, f[1], f[2], f[3]) >= 1}}
      dom == UNION {{<<f[1], f[2], f[3], c>> : c \in cardsOf(f)} : f \in feats3}
  IN [q \in dom |-> Cardinality({n \in members :
                        IF q[4] = PLUS \/ q[2] = cfg.instProp THEN OpDN(inst, n, q[1], q[2], q[3]) >= 1
                        ELSE OpDN(inst, n, q[1], q[2], q[3]) = q[4]})]

\* ---- statements
Stmt(inv, p, k, card, n, com) == [inv |-> inv, p |-> p, k |-> k, ks |-> {}, card |-> card, n |-> n, com |-> com]
CRASH == Stmt(FALSE, "CRASH", "", 0, 0, {})
IsCrash(x) == x.p = "CRASH"
Fact(s) == <<s.k, s.card, s.n>>
\* tie-break: the code takes the first of the tied maxima in dict-insertion order; the model takes the
\* least or the greatest under TLC's value order, selected by cfg.salt, and reports whether a tie existed
Maxima(ss) == {s \in ss : \A r \in ss : r.n <= s.n}
MaxN(ss) == LET q == SetToSeq(Maxima(ss)) IN q[(cfg.salt % Len(q)) + 1]
TiedMax(ss) == Cardinality(Maxima(ss)) > 1

\* ---- stage 5: candidates at or above the threshold
CandF(prof, N) == {q \in DOMAIN prof : FreqOK(prof[q], N, cfg.thr)}
\* ---- stage 6a: one statement per (direction, property, kind)
SelectSame(grp) ==
  IF Cardinality(grp) = 1 THEN CHOOSE s \in grp : TRUE
  ELSE IF cfg.discardUseless /\ Cardinality(grp) = 2
          /\ (\E a, b \in grp : a # b /\ a.n = b.n /\ a.card = PLUS /\ b.card # PLUS)
       THEN CHOOSE s \in grp : s.card # PLUS
  ELSE LET plus == {s \in grp : s.card = PLUS}
           nonplus == grp \ plus
           res == IF cfg.keepLess THEN (IF plus # {} THEN CHOOSE s \in plus : TRUE ELSE MaxN(grp))
                  ELSE (IF nonplus # {} THEN MaxN(nonplus) ELSE MaxN(grp))
       IN [res EXCEPT !.com = {Fact(s) : s \in {x \in grp : x.card # res.card}}]
SelectTie(grp) == Cardinality(grp) > 1 /\ ~cfg.keepLess /\ TiedMax({s \in grp : s.card # PLUS})
SelectF(prof, cands) ==
  LET keys3 == {<<q[1], q[2], q[3]>> : q \in cands}
  IN {SelectSame({Stmt(q[1], q[2], q[3], q[4], prof[q], {}) : q \in {x \in cands : <<x[1], x[2], x[3]>> = key}}) : key \in keys3}
\* ---- stage 6b: merge the node kinds of one (direction, property)
IsNL(s) == s.p # cfg.instProp /\ (s.k \in {"IRI", "BNode"} \/ IsShape(s.k))
MostGeneral(a, b) == IF a = PLUS \/ b = PLUS \/ a # b THEN PLUS ELSE a
MergeGroup(grp) ==
  IF Cardinality(grp) = 1 THEN CHOOSE s \in grp : TRUE
  ELSE LET bn == {s \in grp : s.k = "BNode"}
           iri == {s \in grp : s.k = "IRI"}
           shp == {s \in grp : IsShape(s.k)}
           B == CHOOSE s \in bn : TRUE
           I == CHOOSE s \in iri : TRUE
           Top == MaxN(shp)
           feed(dom) == (IF bn # {} THEN {Fact(B)} ELSE {}) \cup (IF bn # {} /\ iri # {} THEN {Fact(I)} ELSE {})
                         \cup {Fact(s) : s \in {x \in shp : x # dom}}
           dom0 == IF bn # {} THEN
                      IF iri # {} THEN
                         IF Cardinality(shp) = 1 /\ I.n + B.n = Top.n THEN Top
                         ELSE Stmt(B.inv, B.p, "NONLITERAL", MostGeneral(B.card, I.card), B.n + I.n, {})
                      ELSE IF shp # {} /\ Top.n = B.n THEN Top ELSE B
                   ELSE IF iri # {} /\ (shp = {} \/ Top.n < I.n) THEN I ELSE Top
       IN IF IsCrash(dom0) THEN CRASH
          ELSE LET types == IF cfg.disableOr THEN {}
                            ELSE IF cfg.redundantOr THEN (IF dom0 \in shp THEN {} ELSE {dom0.k}) \cup {s.k : s \in shp}
                            ELSE IF dom0 \in shp THEN {s.k : s \in shp} ELSE {}
                   \* (a disjunction lists every arm that is a shape in its comments, the dominant one included)
                   dom1 == IF Cardinality(types) > 1 THEN [dom0 EXCEPT !.ks = types, !.k = "", !.com = IF dom0 \in shp THEN {Fact(dom0)} ELSE {}] ELSE dom0
               IN [dom1 EXCEPT !.com = @ \cup feed(dom0)]
MergeTie(grp) == Cardinality(grp) > 1 /\ TiedMax({s \in grp : IsShape(s.k)})
MergeF(ss) == LET plain == {s \in ss : ~IsNL(s)}
                  dp == {<<s.inv, s.p>> : s \in ss \ plain}
              IN plain \cup {MergeGroup({s \in ss \ plain : <<s.inv, s.p>> = x}) : x \in dp}
\* ---- stage 7: tuning
TuneF(ss, N) ==
  LET relax(s) == IF cfg.allCompliant /\ s.n # N
                  THEN [s EXCEPT !.com = @ \cup (IF s.ks = {} THEN {Fact(s)} ELSE {}),
                                 !.card = IF cfg.allowOpt /\ s.card = 1 THEN OPT ELSE STAR]
                  ELSE s
      gen(s) == IF cfg.disableExact /\ s.card > 1 THEN [s EXCEPT !.card = PLUS] ELSE s
  IN {gen(relax(s)) : s \in ss}
ShapeOf(prof, N) == LET m == MergeF(SelectF(prof, CandF(prof, N)))
                    IN IF CRASH \in m THEN {CRASH} ELSE TuneF(m, N)
\* ---- stage 8: cleaning of empty shapes (fixpoint), dropping statements that point to removed shapes
RECURSIVE CleanR(_)
CleanR(shapes) ==
  LET gone == {k \in DOMAIN shapes : shapes[k] = {}}
      goneRef(k) == IsShape(k) /\ KeyOfShape(k) \in gone
      \* a disjunction forgets the alternatives that are gone and disappears with its last one
      prune(s) == IF s.ks = {} THEN s ELSE [s EXCEPT !.ks = {k \in s.ks : ~goneRef(k)}]
  IN IF gone = {} \/ ~cfg.removeEmpty THEN shapes
     ELSE CleanR([k \in DOMAIN shapes \ gone |->
                    {prune(s) : s \in {x \in shapes[k] : IF x.ks = {} THEN ~goneRef(x.k) ELSE \E a \in x.ks : ~goneRef(a)}}])
\* ---- the whole pipeline on the current doc / cfg
ProfKeys(inst) == OpKeys(inst) \cup (IF cfg.mode = "classes" THEN ToSet(cfg.targets) ELSE {})
ProfsOf(inst) == [k \in ProfKeys(inst) |-> ProfOf(inst, k)]
\* ClassProfiler._clean_class_profile: with remove_empty_shapes, classes without features are dropped and the references
\* to them are deleted from the other classes' profiles, until no feature-less class is left
\* (the labels of a shape map are protected at this stage - ClassProfiler._is_original_target_shape - and only go, with the
\*  statements that refer to them, when the shapes are cleaned: CleanR; target classes are meant to be protected too, but the
\*  profiler compares their *shape names* with class keys, so they never are)
ProtectedKeys == IF cfg.mode \in {"shapemap", "mixed"} THEN ItemLabels ELSE {}
RECURSIVE CleanProfiles(_)
CleanProfiles(profs) ==
  LET gone == {k \in DOMAIN profs : DOMAIN profs[k] = {} /\ k \notin ProtectedKeys}
  IN IF gone = {} THEN profs
     ELSE CleanProfiles([k \in DOMAIN profs \ gone |->
             [q \in {x \in DOMAIN profs[k] : ~(IsShape(x[3]) /\ KeyOfShape(x[3]) \in gone)} |-> profs[k][q]]])
\* the profile as the `profiled` hook logs it (after the clean-up): rows <<key, inverse, property, kind, cardinality, count>>
ProfileRows(profs) == UNION {{<<k, q[1], q[2], q[3], q[4], profs[k][q]>> : q \in DOMAIN profs[k]} : k \in DOMAIN profs}
OpProfileRows == LET profs0 == ProfsOf(TrackF) IN ProfileRows(IF cfg.removeEmpty THEN CleanProfiles(profs0) ELSE profs0)
OutFrom(inst, profs0) ==
  LET profs == IF cfg.removeEmpty THEN CleanProfiles(profs0) ELSE profs0
      raw == [k \in DOMAIN profs |-> IF DOMAIN profs[k] = {} THEN {} ELSE ShapeOf(profs[k], Cardinality(OpInst(inst, k)))]
  IN CleanR(raw)
OpOut == OutFrom(TrackF, ProfsOf(TrackF))
OpCrashed(out) == \E k \in DOMAIN out : CRASH \in out[k]
OpTie ==
  LET inst == TrackF IN
  \E k \in OpKeys(inst) :
     LET pr == ProfOf(inst, k)
         cands == CandF(pr, Cardinality(OpInst(inst, k)))
         keys3 == {<<q[1], q[2], q[3]>> : q \in cands}
         sel == SelectF(pr, cands)
         dp == {<<s.inv, s.p>> : s \in {x \in sel : IsNL(x)}}
     IN \/ \E key \in keys3 : SelectTie({Stmt(q[1], q[2], q[3], q[4], pr[q], {}) : q \in {x \in cands : <<x[1], x[2], x[3]>> = key}})
        \/ \E x \in dp : MergeTie({s \in sel : IsNL(s) /\ <<s.inv, s.p>> = x})

(***************************************************************************)
(* PROPERTY CLAUSES over an observed (or predicted) schema                 *)
(*   obs : set of shapes [key, n, tcs] ; tcs : set of                      *)
(*         [inv, p, k, ks, card, n, com]  with n = -1 when the line        *)
(*         carries no figure, com a set of <<k, card, n>>                  *)
(* Every operator returns the set of failing clause names: {} = holds.     *)
(***************************************************************************)
ShapeOfKey(obs, key) == CHOOSE s \in obs : s.key = key
BothKinds(key, inv, p) == \E n \in Inst(key) : DN(n, inv, p, "IRI") > 0 /\ DN(n, inv, p, "BNode") > 0
(* A printed figure is a pair (abs, ratio): abs = the count in "(n instances)" or -1 when the text has none;  *)
(* ratio = the printed percentage scaled by 10^4 or -1.  decimals = d >= 0 : the ratio must be the d-place   *)
(* rounding of 100*cnt/N ; d < 0 : the exact ratio up to 10^-4 (floating-point noise).                     *)
Abs(x) == IF x < 0 THEN -x ELSE x
Pow10(e) == CASE e = 0 -> 1 [] e = 1 -> 10 [] e = 2 -> 100 [] e = 3 -> 1000 [] OTHER -> 10000
RatioOK(r, cnt, N) ==
  IF N = 0 THEN FALSE
  \* (TLC's integers have 32 bits: for classes of more than 2 000 instances the ratio is taken with two decimals, which is all a
  \*  report with decimals <= 2 prints; other reports of such classes are not judged)
  ELSE IF N > 2000 THEN (cfg.decimals \in 0..2 /\ r % 100 = 0) => 2 * Abs((r \div 100) * N - cnt * 10000) <= N * Pow10(2 - cfg.decimals)
  ELSE IF cfg.decimals < 0 \/ cfg.decimals > 4 THEN Abs(r * N - cnt * 1000000) <= N
  ELSE 2 * Abs(r * N - cnt * 1000000) <= N * Pow10(4 - cfg.decimals)
\* decimals = 0 is printed with int(): truncation instead of rounding (known finding KF.C13.truncation)
RatioTruncated(r, cnt, N) == cfg.decimals = 0 /\ N > 0 /\ r * N <= cnt * 1000000 /\ cnt * 1000000 < (r + 10000) * N
HasFig(a, r) == a >= 0 \/ r >= 0
FigIs(a, r, cnt, N) == (a >= 0 => a = cnt) /\ (r >= 0 => RatioOK(r, cnt, N))
FigOK(key, inv, p, k, card, a, r) == FigIs(a, r, Count(key, inv, p, k, card), CC(key))
\* NONLITERAL lines are judged only when no instance has both kinds (the property's own carve-out)
FactOK(key, inv, p, k, card, a, r) == (k = "NONLITERAL" /\ BothKinds(key, inv, p)) \/ FigOK(key, inv, p, k, card, a, r)
Over100(a, r, N) == (a >= 0 /\ a > N) \/ (r >= 0 /\ r > 1000000)
MaxCard == 1 + Cardinality(G)
\* known finding KF.C01.nlsum: with keep_less_specific off the IRI+BNode merge labels '+' the sum of two exact-cardinality counts
NLSum(key, inv, p, k, card, a, r) ==
  k = "NONLITERAL" /\ ~cfg.keepLess /\ card = PLUS /\
  \E c1, c2 \in 1..MaxCard : FigIs(a, r, Count(key, inv, p, "IRI", c1) + Count(key, inv, p, "BNode", c2), CC(key))
TruncOK(key, inv, p, k, card, a, r) ==
  LET cnt == Count(key, inv, p, k, card) IN (a >= 0 => a = cnt) /\ r >= 0 /\ RatioTruncated(r, cnt, CC(key))
C01Shape(sh) ==
  (IF sh.n # -1 /\ sh.n # CC(sh.key) THEN {"C01.header"} ELSE {}) \cup
  UNION {
     UNION {IF ~HasFig(f[3], f[4]) \/ FactOK(sh.key, tc.inv, tc.p, f[1], f[2], f[3], f[4]) THEN {}
            ELSE IF NLSum(sh.key, tc.inv, tc.p, f[1], f[2], f[3], f[4]) THEN {"KF.C01.nlsum"}
            ELSE IF TruncOK(sh.key, tc.inv, tc.p, f[1], f[2], f[3], f[4]) THEN {"KF.C13.truncation"} ELSE {"C01.comment"} : f \in tc.com} \cup
     (IF HasFig(tc.abs, tc.ratio) /\ tc.ks = {} /\ tc.card \notin {STAR, OPT} /\
         ~(\/ FactOK(sh.key, tc.inv, tc.p, tc.k, tc.card, tc.abs, tc.ratio)
           \/ (cfg.disableExact /\ tc.card = PLUS /\ \E c \in 2..MaxCard : FigOK(sh.key, tc.inv, tc.p, tc.k, c, tc.abs, tc.ratio)))
      THEN (IF NLSum(sh.key, tc.inv, tc.p, tc.k, tc.card, tc.abs, tc.ratio) THEN {"KF.C01.nlsum"}
            ELSE IF \/ TruncOK(sh.key, tc.inv, tc.p, tc.k, tc.card, tc.abs, tc.ratio)
                    \* (the truncated figure of the exact cardinality a '+' line replaced under disable_exact_cardinality)
                    \/ (cfg.disableExact /\ tc.card = PLUS /\ \E c \in 2..MaxCard : TruncOK(sh.key, tc.inv, tc.p, tc.k, c, tc.abs, tc.ratio))
                 THEN {"KF.C13.truncation"} ELSE {"C01.line"}) ELSE {}) \cup
     (IF Over100(tc.abs, tc.ratio, CC(sh.key)) /\ ~(tc.k = "NONLITERAL" /\ BothKinds(sh.key, tc.inv, tc.p)) /\ tc.ks = {}
      THEN {"C01.over100"} ELSE {}) \cup
     (IF \E f \in tc.com : Over100(f[3], f[4], CC(sh.key)) /\ ~(f[1] = "NONLITERAL" /\ BothKinds(sh.key, tc.inv, tc.p)) THEN {"C01.over100"} ELSE {})
     : tc \in sh.tcs}
C01(obs) == UNION {C01Shape(sh) : sh \in {x \in obs : x.key \in Keys}}

KeyOfTc(tc) == <<tc.inv, tc.p, VC(tc.p, IF tc.ks # {} THEN "NONLITERAL" ELSE tc.k)>>
\* a key that is expected but absent only because every single node kind is below the threshold (known finding)
MixedMiss(key, q) == q[3] = "nonliteral" /\ ~SomeKindPasses(key, q[1], q[2])
RequestedEmpty == IF cfg.mode = "classes" /\ ~cfg.removeEmpty THEN ToSet(cfg.targets) ELSE {}
\* known finding KF.C02.cleanref: when an empty shape is removed, every constraint that referred to it is dropped as a
\* whole instead of falling back to the plain node kind: the key is lost although its frequency is >= t
RefToGone(key, q, present) ==
  q[3] = "nonliteral" /\ \E k2 \in LiveKeys \ present :
      Sh(k2) \in KindsPresent(key, q[1], q[2]) /\ FreqOK(Count(key, q[1], q[2], Sh(k2), PLUS), CC(key), cfg.thr)
C02Shape(sh, present) ==
  LET got == {KeyOfTc(tc) : tc \in sh.tcs}
      want == ExpectedKeys(sh.key)
      missing == want \ got
  IN (IF got \ want # {} THEN {"C02.extra"} ELSE {}) \cup
     UNION {IF MixedMiss(sh.key, q) THEN {"KF.C02.mixedkinds"}
            ELSE IF cfg.removeEmpty /\ RefToGone(sh.key, q, present) THEN {"KF.C02.cleanref"} ELSE {"C02.missing"} : q \in missing} \cup
     (IF \E a, b \in sh.tcs : a # b /\ KeyOfTc(a) = KeyOfTc(b) THEN {"C02.dup"} ELSE {})
\* shapes all of whose keys are filtered may be dropped when remove_empty_shapes is on (also in cascade: a shape whose
\* only surviving constraints referred to dropped shapes)
RECURSIVE DroppableSet(_)
DroppableSet(D) ==
  LET D2 == D \cup {k \in LiveKeys : \A q \in ExpectedKeys(k) : MixedMiss(k, q) \/ RefToGone(k, q, LiveKeys \ D)}
  IN IF D2 = D THEN D ELSE DroppableSet(D2)
C02(obs) ==
  LET got == {s.key : s \in obs}
      droppable == IF cfg.removeEmpty THEN DroppableSet({}) ELSE {}
  IN UNION {C02Shape(sh, got) : sh \in {x \in obs : x.key \in Keys}} \cup
     (IF got \ (LiveKeys \cup RequestedEmpty) # {} THEN {"C02.shape.extra"} ELSE {}) \cup
     (IF \E k \in (LiveKeys \cup RequestedEmpty) \ got : k \notin droppable
      THEN {"C02.shape.missing"} ELSE {}) \cup
     (IF \E a, b \in obs : a # b /\ a.key = b.key THEN {"C02.shape.dup"} ELSE {})

\* ---- C03: ShEx conformance as a greatest fixpoint
CardOK(cnt, card) == CASE card = PLUS -> cnt >= 1 [] card = STAR -> TRUE [] card = OPT -> cnt <= 1 [] OTHER -> cnt = card
MatchK(t, inv, k, T) ==
  LET x == Other(t, inv) IN
  CASE k = "IRI" -> x[1] = "IRI"
    [] k = "BNode" -> x[1] = "BNode"
    [] k = "NONLITERAL" -> IsNodeT(x)
    [] IsShape(k) -> IsNodeT(x) /\ <<x, KeyOfShape(k)>> \in T
    [] OTHER -> x[1] = k
MatchTc(t, tc, T) == IF tc.p = cfg.instProp THEN Other(t, tc.inv)[2] = tc.k
                     ELSE IF tc.ks # {} THEN \E k \in tc.ks : MatchK(t, tc.inv, k, T) ELSE MatchK(t, tc.inv, tc.k, T)
AllTriplesOf(n, inv, p) == {t \in G : P(t) = p /\ Focus(t, inv) = n}
LocalOK(obs, n, key, T) ==
  LET tcs == ShapeOfKey(obs, key).tcs IN
  /\ \A tc \in tcs : \A t \in AllTriplesOf(n, tc.inv, tc.p) :
        \E tc2 \in tcs : tc2.inv = tc.inv /\ tc2.p = tc.p /\ MatchTc(t, tc2, T)
  /\ \A tc \in tcs : CardOK(Cardinality({t \in AllTriplesOf(n, tc.inv, tc.p) : MatchTc(t, tc, T)}), tc.card)
RECURSIVE Gfp(_, _)
Gfp(obs, T) == LET T2 == {x \in T : LocalOK(obs, x[1], x[2], T)} IN IF T2 = T THEN T ELSE Gfp(obs, T2)
\* (a node a shape map names is an instance even when the document says nothing about it: it is typed like any other node)
Typing(obs) == Gfp(obs, (Nodes \cup UNION {Inst(k) : k \in Keys}) \X {s.key : s \in obs})
\* strict domain of C03 (as the property states it)
NLOthers(key, inv, p) == {Other(t, inv) : t \in {x \in G : P(x) = p /\ Focus(x, inv) \in Inst(key) /\ IsNodeT(Other(x, inv))}}
AllProps == {P(t) : t \in G}
SchemaConsistent ==
  \A key \in LiveKeys, p \in AllProps \ {cfg.instProp}, inv \in Dirs :
    LET os == NLOthers(key, inv, p) IN
      /\ Cardinality({o[1] : o \in os}) <= 1
      /\ \/ \A o \in os : KeysOf(o) = {}
         \/ \E k2 \in Keys : \A o \in os : KeysOf(o) = {k2}
Strict == /\ cfg.allCompliant /\ cfg.thr[1] = 0 /\ cfg.keepLess /\ cfg.disableOr
          /\ cfg.ignoreNs = <<>> /\ SchemaConsistent
C03(obs) ==
  IF ~Strict THEN {}
  ELSE LET T == Typing(obs) IN
       (IF \E sh \in obs : \E n \in Inst(sh.key) : <<n, sh.key>> \notin T THEN {"C03.conform"} ELSE {}) \cup
       (IF \E sh \in obs : \E tc \in sh.tcs : tc.card = OPT /\
             \E n \in Inst(sh.key) : Cardinality({t \in AllTriplesOf(n, tc.inv, tc.p) : MatchTc(t, tc, T)}) > 1
        THEN {"C03.opt"} ELSE {})
\* outside the strict domain the local part still must hold for literal / plain-kind constraints:
\* a relaxed '?' never sits on a constraint for which some instance has two matching values of that very kind
C03Local(obs) ==
  IF ~(cfg.allCompliant /\ cfg.keepLess) THEN {}
  ELSE IF \E sh \in obs : \E tc \in sh.tcs : tc.card = OPT /\ tc.ks = {} /\ ~IsShape(tc.k) /\ tc.k # "NONLITERAL" /\
             \E n \in Inst(sh.key) : DN(n, tc.inv, tc.p, tc.k) > 1
       THEN {"C03.optlocal"} ELSE {}

\* ---- C10 / C16: the node set behind each shape (against the tracker's snapshot, when logged)
C10Inst(tracked) ==   \* tracked : set of <<node, key>>
  LET got(k) == {x[1] : x \in {y \in tracked : y[2] = k}}
      \* known finding: a blank node matched by a shape-map selector is tracked under another (rdflib) label
      bsel(k) == /\ k \in LabelKeys /\ \E n \in Inst(k) : n[1] = "BNode"
                 /\ {n \in got(k) : n \in Nodes} = {n \in Inst(k) : n[1] = "IRI"}
                 /\ Cardinality(got(k)) = Cardinality(Inst(k))
  IN UNION {IF got(k) = Inst(k) THEN {} ELSE IF bsel(k) THEN {"KF.C10.bnodeselector"} ELSE {"C10.inst"} : k \in Keys} \cup
     (IF \E x \in tracked : x[2] \notin Keys THEN {"C10.extrakey"} ELSE {})

\* ---- C05 (closure, at the level of the abstract schema): references resolve
C05Closed(obs) ==
  LET refs == UNION {UNION {{k \in (IF tc.ks # {} THEN tc.ks ELSE {tc.k}) : IsShape(k)} : tc \in sh.tcs} : sh \in obs}
      tilde(k) == Len(k) >= 2 /\ SubSeq(k, 1, 2) = "@~"
  IN (IF \E k \in refs : ~tilde(k) /\ KeyOfShape(k) \notin {s.key : s \in obs} THEN {"C05.dangling"} ELSE {}) \cup
     (IF \E k \in refs : tilde(k) THEN {"KF.C05.shapesns"} ELSE {})

(***************************************************************************)
(* Projections of a schema used by the relational properties (Campaign)    *)
(***************************************************************************)
ConsOf(obs) == UNION {{<<s.key, tc.inv, tc.p, tc.k, tc.ks, tc.card>> : tc \in s.tcs} : s \in obs}
KeysIn(obs) == UNION {{<<s.key, KeyOfTc(tc)>> : tc \in s.tcs} : s \in obs}
Heads(obs) == {<<s.key, s.n>> : s \in obs}
\* every (shape, direction, property, kind, cardinality, count) fact printed on a line or in a comment
\* (with disable_exact_cardinality a '+' line may carry the figure of the exact cardinality it replaced: not a fact about '+'.
\*  With keep_less_specific an exact cardinality is only ever selected when its count equals the count of '+' - the "useless
\*  positive closure" rule - so there the figure of a generalised line *is* the figure of '+'.)
Facts(obs) == UNION {UNION {(IF tc.abs >= 0 /\ tc.ks = {} /\ ~(cfg.disableExact /\ ~cfg.keepLess /\ tc.card = PLUS) THEN {<<s.key, tc.inv, tc.p, tc.k, tc.card, tc.abs>>} ELSE {}) \cup
                            {<<s.key, tc.inv, tc.p, f[1], f[2], f[3]>> : f \in {g \in tc.com : g[3] >= 0}} : tc \in s.tcs} : s \in obs}
\* (shape, direction, property) groups in which the code resolves a frequency tie by dict-insertion order
TieGroups ==
  LET inst == TrackF IN
  UNION {LET pr == ProfOf(inst, k)
             cands == CandF(pr, Cardinality(OpInst(inst, k)))
             keys3 == {<<q[1], q[2], q[3]>> : q \in cands}
             grp(key) == {Stmt(q[1], q[2], q[3], q[4], pr[q], {}) : q \in {x \in cands : <<x[1], x[2], x[3]>> = key}}
             sel == SelectF(pr, cands)
             dp == {<<s.inv, s.p>> : s \in {x \in sel : IsNL(x)}}
         IN {<<k, key[1], key[2]>> : key \in {y \in keys3 : SelectTie(grp(y))}} \cup
            {<<k, x[1], x[2]>> : x \in {y \in dp : MergeTie({s \in sel : IsNL(s) /\ <<s.inv, s.p>> = y})}}
         : k \in OpKeys(inst)}
\* C12: nothing that is reported (constraint line or alternative in a comment) is below the acceptance threshold:
\* at threshold 1 only what all instances have remains
C12Below(obs) == IF \E f \in Facts(obs) : f[1] \in Keys /\ ~FreqOK(f[6], CC(f[1]), cfg.thr) THEN {"C12.belowthreshold"} ELSE {}
OutsideTiesOf(facts, tg) == {f \in facts : <<f[1], f[2], f[3]>> \notin tg}
OutsideTies(facts) == LET tg == TieGroups IN OutsideTiesOf(facts, tg)

\* ---- schema of the operational model in the same shape as an observed one
OpObs(out) == {[key |-> k, n |-> Cardinality(OpInst(TrackF, k)),
                tcs |-> {[inv |-> s.inv, p |-> s.p, k |-> s.k, ks |-> s.ks, card |-> s.card,
                          abs |-> IF s.card \in {STAR, OPT} THEN -1 ELSE s.n, ratio |-> -1,
                          com |-> {<<f[1], f[2], f[3], -1>> : f \in s.com}] : s \in out[k]}] : k \in DOMAIN out}
=============================================================================
