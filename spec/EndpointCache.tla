---------------------------- MODULE EndpointCache ----------------------------
(***************************************************************************)
(* C15: the SPARQL-endpoint graph (EndpointSGraph) with and without its    *)
(* local cache, driven the way Shaper drives it at depth 1: for every      *)
(* target node one "predicate-object" request (and one "subject-predicate" *)
(* request with inverse paths), repeated by the second pass.               *)
(*   remote                : the graph the endpoint serves (constant)      *)
(*   local, subjT, objT    : the cache and its bookkeeping                 *)
(*   nq, nqNoCache         : queries sent with / without the cache for the *)
(*                           same request sequence                         *)
(* Class(s) (yield_class_triples_of_an_s) is part of the API but is not    *)
(* called at depth 1 with the default options; it is an action only when   *)
(* WithClassCalls = TRUE (the known cache incoherence lives there).        *)
(***************************************************************************)
EXTENDS Integers, Sequences, FiniteSets, TLC
CONSTANTS Nodes, TYPE, Props, MaxCalls, MaxTriples, WithClassCalls
VARIABLES remote, local, subjT, objT, nq, nqNoCache, calls, lastAns, lastRef
vars == <<remote, local, subjT, objT, nq, nqNoCache, calls, lastAns, lastRef>>
Triples == Nodes \X (Props \cup {TYPE}) \X Nodes
Init == /\ remote \in {g \in SUBSET Triples : Cardinality(g) <= MaxTriples}
        /\ local = {} /\ subjT = {} /\ objT = {} /\ nq = 0 /\ nqNoCache = 0 /\ calls = 0 /\ lastAns = {} /\ lastRef = {}
RPO(s) == {t \in remote : t[1] = s}
RSP(o) == {t \in remote : t[3] = o}
RCl(s) == {t \in remote : t[1] = s /\ t[2] = TYPE}
PO(s) == /\ calls < MaxCalls /\ calls' = calls + 1
         /\ IF s \in subjT THEN local' = local /\ nq' = nq ELSE local' = local \cup RPO(s) /\ nq' = nq + 1
         /\ subjT' = subjT \cup {s}
         /\ lastAns' = {t \in local' : t[1] = s} /\ lastRef' = RPO(s)
         /\ nqNoCache' = nqNoCache + 1 /\ UNCHANGED <<remote, objT>>
SP(o) == /\ calls < MaxCalls /\ calls' = calls + 1
         /\ IF o \in objT THEN local' = local /\ nq' = nq ELSE local' = local \cup RSP(o) /\ nq' = nq + 1
         /\ objT' = objT \cup {o}
         /\ lastAns' = {t \in local' : t[3] = o} /\ lastRef' = RSP(o)
         /\ nqNoCache' = nqNoCache + 1 /\ UNCHANGED <<remote, subjT>>
Cl(s) == /\ WithClassCalls /\ calls < MaxCalls /\ calls' = calls + 1
         /\ IF s \in subjT THEN local' = local /\ nq' = nq ELSE local' = local \cup RCl(s) /\ nq' = nq + 1
         /\ subjT' = subjT \cup {s}       \* as coded: the subject is marked fully tracked after fetching only its class triples
         /\ lastAns' = {t \in local' : t[1] = s /\ t[2] = TYPE} /\ lastRef' = RCl(s)
         /\ nqNoCache' = nqNoCache + 1 /\ UNCHANGED <<remote, objT>>
Next == \E n \in Nodes : PO(n) \/ SP(n) \/ Cl(n)
Spec == Init /\ [][Next]_vars
\* every answer is exactly what the endpoint would answer; the cache never invents triples; caching never costs queries
Coherent == lastAns = lastRef
Cheaper == nq <= nqNoCache
LocalSound == local \subseteq remote
\* ---- verdict clauses for observed query counts of the same extraction with and without the cache
CountClauses(cached, uncached) == IF cached > uncached THEN {"C15.morequeries"} ELSE {}
=============================================================================
