SPECIFICATION Spec
CONSTANTS
  U <- MC_Usmall
  K = 4
  Pairs <- PairsNoOpt
  Rel = "noopt"
INVARIANT RelHolds
