SPECIFICATION Spec
CONSTANTS
  U <- MC_Usmall
  K = 3
  CfgSet <- MC_CfgC01
  Perm = FALSE
INVARIANT InvProfile
INVARIANT InvC01
