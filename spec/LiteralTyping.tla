--------------------------- MODULE LiteralTyping ---------------------------
(***************************************************************************)
(* How a literal of the input graph is typed, channel by channel.          *)
(*                                                                         *)
(* A literal is (lexical class, declared kind).  The lexical classes are   *)
(* a closed vocabulary of forms that matter to some code path (what        *)
(* Python's float() accepts, what looks like an http IRI, what contains    *)
(* the characters the token scanners look for); each has one witness       *)
(* string that the harness sends through the real code.                    *)
(*                                                                         *)
(* Type(channel, form, lc, decl, infer) is what the library prints for the *)
(* value: a datatype IRI or "IRI" (the value taken for a node).            *)
(*   - the local channels keep the declared kind of a quoted literal       *)
(*     (decide_literal_type on the token / rdflib's datatype attribute)    *)
(*   - an UNQUOTED token (Turtle / TSV shorthand, and every value the      *)
(*     SPARQL result reader hands over: it keeps the lexical form only)    *)
(*     is typed by its text: tune_token tries float()                      *)
(* The properties say where this coincides with the RDF semantics          *)
(* (Faithful): everywhere for the local channels (C06 / C07 / C08), on an  *)
(* exactly characterised part of the table for the endpoint (C15) and for  *)
(* the shorthand of the streaming Turtle reader (the divergence C07        *)
(* documents).                                                             *)
(***************************************************************************)
EXTENDS Integers, Sequences, FiniteSets, TLC

XSD == "http://www.w3.org/2001/XMLSchema#"
XSD_STRING == XSD \o "string"
XSD_INTEGER == XSD \o "integer"
XSD_FLOAT == XSD \o "float"
LANG_STRING == "http://www.w3.org/1999/02/22-rdf-syntax-ns#langString"
DT_CUSTOM == "http://example.org/dt/len"

LexClasses == {"word", "int", "sint", "nint", "zeros", "dec", "exp", "decexp", "nan", "inf", "under", "bool", "empty", "http",
               "urn", "date", "spaced", "langlike", "hashy", "dt_like", "huge", "multiline"}
Witness(lc) == CASE lc = "word" -> "abc"      [] lc = "int" -> "57"        [] lc = "sint" -> "+8"      [] lc = "nint" -> "-30"
                 [] lc = "zeros" -> "007"     [] lc = "dec" -> "3.14"      [] lc = "exp" -> "1e3"      [] lc = "decexp" -> "1.5e1"
                 [] lc = "nan" -> "nan"       [] lc = "inf" -> "inf"       [] lc = "under" -> "1_000"  [] lc = "bool" -> "true"
                 [] lc = "empty" -> ""        [] lc = "http" -> "http://example.org/u0"                [] lc = "urn" -> "urn:x:1"
                 [] lc = "date" -> "2020-01-02" [] lc = "spaced" -> "a b"  [] lc = "langlike" -> "x@en" [] lc = "hashy" -> "a#b"
                 [] lc = "dt_like" -> "v^^xsd:int"
                 [] lc = "huge" -> "1e400"                   \* a double too large for a float: float() gives inf
                 [] lc = "multiline" -> "l1\nl2"             \* a line feed inside the lexical form
Decls == {"plain", "lang", "integer", "decimal", "double", "float", "boolean", "date", "anyURI", "custom"}
DeclType(d) == CASE d = "plain" -> XSD_STRING [] d = "lang" -> LANG_STRING [] d = "custom" -> DT_CUSTOM [] OTHER -> XSD \o d
\* legal lexical forms of the XSD kinds (the free kinds take anything)
Integers_ == {"int", "sint", "nint", "zeros"}
WellTyped(lc, d) == CASE d \in {"plain", "lang", "custom"} -> TRUE
                      [] d = "integer" -> lc \in Integers_
                      [] d = "decimal" -> lc \in Integers_ \cup {"dec"}
                      [] d = "double" -> lc \in Integers_ \cup {"dec", "exp", "decexp", "huge"}
                      [] d = "float" -> lc \in {"int", "dec", "exp", "decexp"}
                      [] d = "boolean" -> lc = "bool"
                      [] d = "date" -> lc = "date"
                      [] d = "anyURI" -> lc \in {"http", "urn"}         \* a link written as a typed literal is a literal
\* Turtle shorthand: the unquoted token IS a typed literal
ShorthandDecl(lc) == CASE lc \in Integers_ -> "integer" [] lc = "dec" -> "decimal" [] lc \in {"exp", "decexp", "huge"} -> "double"
                       [] lc = "bool" -> "boolean" [] OTHER -> "none"

\* ---- the RDF semantics
Faithful(lc, d) == DeclType(d)

\* ---- Python: float(text) succeeds / its value is a whole number (float % 1.0 == 0; nan and inf are not)
FloatOK(lc) == lc \in {"int", "sint", "nint", "zeros", "dec", "exp", "decexp", "nan", "inf", "under", "huge"}
WholeNumber(lc) == lc \in {"int", "sint", "nint", "zeros", "exp", "decexp", "under"}
\* shexer.utils.triple_yielders.tune_token on a token without quotes, corners or "_:"
ByText(lc, infer) == IF infer /\ FloatOK(lc) THEN (IF WholeNumber(lc) THEN XSD_INTEGER ELSE XSD_FLOAT) ELSE XSD_STRING

Channels == {"nt", "tsv_spo", "turtle_iter", "turtle", "n3", "xml", "json-ld", "rdflib", "endpoint"}
RdflibChannels == {"turtle", "n3", "xml", "json-ld", "rdflib"}
\* what the library prints
Type(ch, form, lc, d, infer) ==
  IF ch = "endpoint" THEN
       \* the result reader keeps row[var]["value"]: an http(s) text gets corners (add_corners_if_it_is_an_uri) and is a node; a
       \* language-tagged value becomes  value"value"@tag  (query._add_lang_if_needed), which float() rejects
       IF lc = "http" THEN "IRI" ELSE IF d = "lang" THEN XSD_STRING ELSE ByText(lc, infer)
  ELSE IF form = "shorthand" THEN
       IF ch \in RdflibChannels THEN DeclType(ShorthandDecl(lc))           \* a standard parser
       ELSE IF ch = "tsv_spo" THEN ByText(lc, TRUE)                         \* (the TSV yielder does not take the inference switch)
       ELSE ByText(lc, infer)
  ELSE DeclType(d)

\* ---- where the unquoted typing coincides with the RDF semantics
EndpointFaithful(lc, d, infer) == Type("endpoint", "quoted", lc, d, infer) = Faithful(lc, d)
\* C15's domain: plain strings and integers, default inference - minus the plain strings whose text reads like a number or an
\* http IRI (KF.C15.typedbytext: same root as the dropped datatypes the property lists as a known finding)
TextTyped(lc, infer) == (infer /\ FloatOK(lc)) \/ lc = "http"
C15Domain(lc, d, infer) == (d = "plain" /\ ~TextTyped(lc, infer)) \/ (d = "integer" /\ infer)
C15Finding(lc, d, infer) == (d = "plain" /\ TextTyped(lc, infer)) \/ (d = "integer" /\ ~infer)
\* the streaming reader's shorthand: integers only (decimals, doubles, booleans: documented divergence of C07)
ShorthandFaithful(lc, infer) == Type("turtle_iter", "shorthand", lc, ShorthandDecl(lc), infer) = DeclType(ShorthandDecl(lc))
=============================================================================
