--------------------------- MODULE MC_ShexerSM ---------------------------
(***************************************************************************)
(* L1 for the target modes that the first models left to trace validation: *)
(* shape maps (node selectors, FOCUS patterns in both positions, one label *)
(* given by several entries with overlapping selections, adjacent and not),*)
(* all classes + shape map, and classes that are themselves typed nodes.   *)
(* Over every document of <= K triples of the universe TLC checks that the *)
(* tracker walk equals the denotation (InvC10), that the operational       *)
(* figures are the declarative counts (InvProfile, InvC01), the key /      *)
(* threshold equivalence (InvC02), closure (InvC05) and absence of crashes.*)
(***************************************************************************)
EXTENDS MC_Shexer
Kind == <<"IRI", "ex:Kind">>
MC_Usm == <<
  <<a, T, CC1>>, <<b, T, CC1>>, <<b, T, CD1>>, <<CC1, T, Kind>>, <<CD1, T, Kind>>,
  <<a, "ex:p", b>>, <<a, "ex:p", u>>, <<a, "ex:p", s1>>, <<b, "ex:p", a>>, <<b, "ex:p", b>>, <<u, "ex:p", a>>,
  <<a, "ex:q", s1>>, <<b, "ex:q", u>>, <<u, "ex:q", CC1>>
>>
NoSel == <<"ANY", "">>
FocusSel == <<"FOCUS", "">>
ItemNode(l, n) == [label |-> "ex:shapes/" \o l, kind |-> "node", node |-> n, ps |-> NoSel, pp |-> "", po |-> NoSel]
ItemPat(l, s_, p_, o_) == [label |-> "ex:shapes/" \o l, kind |-> "pattern", node |-> <<"IRI", "">>, ps |-> s_, pp |-> p_, po |-> o_]
MC_Items == {<<ItemNode("S", a), ItemNode("S", u)>>,
             <<ItemPat("S", FocusSel, "ex:p", NoSel), ItemNode("T", a), ItemPat("S", FocusSel, T, CC1)>>,          \* S, T, S
             <<ItemPat("S", NoSel, "ex:p", FocusSel), ItemNode("S", a), ItemNode("T", b)>>,
             <<ItemPat("S", <<"IRI", "ex:a">>, "ex:p", FocusSel), ItemPat("T", FocusSel, "ex:q", <<"IRI", "ex:u">>)>>}
MC_CfgShapeMap == {[Base EXCEPT !.mode = md, !.items = it, !.thr = t, !.inverse = iv, !.removeEmpty = re, !.keepLess = kl] :
                     md \in {"shapemap", "mixed"}, it \in MC_Items, t \in {<<0, 1>>, <<1, 2>>, <<1, 1>>}, iv \in B, re \in B, kl \in B}
MC_CfgHier == {[Base EXCEPT !.thr = t, !.inverse = iv, !.keepLess = kl, !.allCompliant = ac, !.mode = md[1], !.targets = md[2]] :
                 t \in {<<0, 1>>, <<1, 2>>}, iv \in B, kl \in B, ac \in B, md \in {<<"all", <<>>>>, <<"classes", <<"ex:Kind", "ex:C">>>>}}
=============================================================================
