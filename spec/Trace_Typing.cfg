SPECIFICATION Spec
INVARIANT Report
CHECK_DEADLOCK FALSE
