SPECIFICATION Spec
CONSTANTS
  Doc <- MC_Doc
  MaxParts = 4
INVARIANT PrefixOfDoc
INVARIANT CountersAddUp
INVARIANT Complete
PROPERTY EventuallyAll
