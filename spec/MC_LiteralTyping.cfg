SPECIFICATION Spec
INVARIANT LocalQuotedFaithful
INVARIANT RdflibShorthandFaithful
INVARIANT EndpointOnDomain
INVARIANT EndpointFinding
INVARIANT DomainSplit
INVARIANT EndpointElsewhere
INVARIANT StreamingShorthand
INVARIANT Closed
