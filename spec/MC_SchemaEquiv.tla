--------------------------- MODULE MC_SchemaEquiv ---------------------------
(* L1 for C11: the mapping table is finite; the serializer's table (as coded) agrees with the stated mapping on every      *)
(* statement kind x cardinality x direction (a proof by enumeration for the table itself).                                   *)
EXTENDS SchemaEquiv
VARIABLE tc
Kinds == {"IRI", "BNode", "NONLITERAL", "@http://s/S", "http://www.w3.org/2001/XMLSchema#string", "http://x/dt", "http://c/C"}
Init == tc \in [inv : BOOLEAN, p : {"rdf:type", "ex:p"}, k : Kinds, card : {PLUS, STAR, OPT, 1, 2, 3}]
Next == UNCHANGED tc
Spec == Init /\ [][Next]_tc
TableAgrees == ImplTranslate(tc, "rdf:type") = Translate(tc, "rdf:type")
=============================================================================
