--------------------------- MODULE Trace_Config ---------------------------
(* L2/L3 for C20: every enumerated argument vector was passed to the real constructor (and shex_graph): the observed *)
(* outcome is judged against the contract.                                                                            *)
EXTENDS Config, Sequences, SequencesExt, Json, IOUtils
Traces == JsonDeserialize(IOEnv.TRACE_FILE)
VARIABLE tid
Tr == Traces[tid]
Args == [src |-> ToSet(Tr.a.src), tgt |-> ToSet(Tr.a.tgt), allc |-> Tr.a.allc, comp |-> Tr.a.comp, fmt |-> Tr.a.fmt, ex |-> Tr.a.ex,
         disableOr |-> Tr.a.disableOr, redundantOr |-> Tr.a.redundantOr]
Clauses == IF Tr.kind = "ctor" THEN CtorClauses(Args, Tr.ctor, Tr.call) \cup
                                    (IF Ctor(Args) # Tr.ctor /\ ~(Tr.ctor = "Other") THEN {"drift.ctor"} ELSE {})
           ELSE CallClauses(Tr.c, Tr.outcome)
Init == tid \in 1..Len(Traces)
Next == UNCHANGED tid
Spec == Init /\ [][Next]_tid
Report == PrintT(<<"VERDICT", Tr.id, Clauses, [valid |-> IF Tr.kind = "ctor" THEN Valid(Args) ELSE ValidCall(Tr.c)]>>)
=============================================================================
