--------------------------- MODULE Trace_Shexer ---------------------------
(***************************************************************************)
(* Batched trace monitor (leg L3): every element of the JSON file named by *)
(* the environment variable TRACE_FILE is one execution of the real        *)
(* implementation: the document it read (in reader order), the             *)
(* configuration, the stage snapshots logged by the SHEXER_VERIF hooks     *)
(* and the schema re-parsed from the emitted text.  Core's variables are   *)
(* bound to the logged values and every property clause is evaluated on    *)
(* the implementation's observed state.  The monitor is total: it never    *)
(* disables a step, it names the failing clauses instead.                  *)
(***************************************************************************)
EXTENDS Integers, Sequences, FiniteSets, TLC, Json, IOUtils, SequencesExt, FiniteSetsExt

Traces == JsonDeserialize(IOEnv.TRACE_FILE)

VARIABLE tid
Tr == Traces[tid]

C == INSTANCE Core WITH doc <- Tr.graph, cfg <- Tr.cfg

Obs == {[key |-> s.key, n |-> s.n,
         tcs |-> {[inv |-> tc.inv, p |-> tc.p, k |-> tc.k, ks |-> ToSet(tc.ks), card |-> tc.card,
                   abs |-> tc.abs, ratio |-> tc.ratio, com |-> ToSet(tc.com)] : tc \in ToSet(s.tcs)}]
        : s \in ToSet(Tr.shapes)}
\* two textually identical constraint lines collapse in a set: count them on the sequence
DupLines == \E i \in 1..Len(Tr.shapes) : \E a, b \in 1..Len(Tr.shapes[i].tcs) : a < b /\ Tr.shapes[i].tcs[a] = Tr.shapes[i].tcs[b]
Tracked == {<<x[1], x[2]>> : x \in ToSet(Tr.tracked)}

Want(c) == c \in ToSet(Tr.want)
Clauses ==
  IF Tr.status # "ok" THEN {"C04." \o Tr.status}
  ELSE IF Tr.parse # "ok" THEN {"C05.unparseable"}
  \* known finding (stated with the properties): two classes sharing a local name get the same shape label, and both shapes come
  \* out with that one label and without their constraints - nothing else can be judged on such a run
  ELSE IF Tr.collide THEN {"KF.C05.samelocalname", "KF.C02.samelocalname"}
  \* known finding: a document that states a triple more than once denotes the same graph, but the tracker and the profiler count
  \* statements (an instance typed twice is two instances, a value stated twice is two values): nothing can be judged on such a run.
  \* The quantifiers of C01 and C09 say "duplicate-free"; C03's does not, hence the marker.
  ELSE IF Len(Tr.graph) # Cardinality(ToSet(Tr.graph)) THEN {"KF.C03.duplicates"}
  ELSE (IF Want("C01") THEN C!C01(Obs) ELSE {}) \cup
       (IF Want("C02") THEN C!C02(Obs) \cup (IF DupLines THEN {"C02.dup"} ELSE {}) ELSE {}) \cup
       (IF Want("C03") THEN C!C03(Obs) \cup C!C03Local(Obs) ELSE {}) \cup
       (IF Want("C05") THEN C!C05Closed(Obs) ELSE {}) \cup
       (IF Want("C12") THEN C!C12Below(Obs) ELSE {}) \cup
       (IF Want("C10") /\ Tr.hasTracked THEN C!C10Inst(Tracked) ELSE {})
\* drift: disagreement with the operational model that no property clause forbids (reported, never a verdict)
\* (the figures are compared as counts; a run that prints ratios only - instances_report_mode = ratio - or no comments at all -
\*  disable_comments - is compared on structure)
NoCounts == \A s \in Obs : s.n = -1
\* (a disjunction line carries no figure of its own in the text)
StripR(S) == {[s EXCEPT !.tcs = {[tc EXCEPT !.ratio = -1, !.abs = IF tc.ks # {} THEN -1 ELSE tc.abs,
                                             !.com = {<<f[1], f[2], f[3], -1>> : f \in tc.com}] : tc \in s.tcs}] : s \in S}
StripC(S) == {[s EXCEPT !.n = -1, !.tcs = {[tc EXCEPT !.abs = -1, !.com = IF Tr.pres.comments THEN {<<f[1], f[2], -1, -1>> : f \in tc.com} ELSE {}] : tc \in s.tcs}] : s \in S}
Drift == IF Tr.status = "ok" /\ Tr.parse = "ok" /\ Want("drift") /\ ~C!OpTie
         THEN (LET out == C!OpOut IN IF C!OpCrashed(out) THEN {"drift.modelcrash"}
                                     ELSE IF (IF NoCounts THEN StripC(StripR(C!OpObs(out))) = StripC(StripR(Obs)) ELSE StripR(C!OpObs(out)) = StripR(Obs))
                                          THEN {} ELSE {"drift.output"})
         ELSE {}
\* stage conformance (reported like drift, never a verdict): the profile the implementation holds after its second pass is the
\* profile of the specification's Profile action; the statements of every shape, direct and inverse together, are ordered by decreasing support
\* (a stated-but-unclaimed invariant of the shexing stage)
Profile == {<<r[1], r[2], r[3], r[4], r[5], r[6]>> : r \in ToSet(Tr.profile)}
StageDrift ==
  IF Tr.status # "ok" \/ ~Want("drift") THEN {}
  ELSE (IF Tr.hasProfile /\ Profile # C!OpProfileRows THEN {"drift.profile"} ELSE {}) \cup
       (IF \E i \in 1..Len(Tr.order) : \E a, b \in 1..Len(Tr.order[i]) : a < b /\ Tr.order[i][a][2] < Tr.order[i][b][2]
        THEN {"drift.order"} ELSE {})
Info == [strict |-> (Tr.status = "ok" /\ C!Strict), nkeys |-> Cardinality(C!LiveKeys)]

Init == tid \in 1..Len(Traces)
Next == UNCHANGED tid
Spec == Init /\ [][Next]_tid
Report == PrintT(<<"VERDICT", Tr.id, Clauses \cup Drift \cup StageDrift, Info>>)
=============================================================================
