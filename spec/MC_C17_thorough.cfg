SPECIFICATION Spec
CONSTANTS
  Alphabet = {"h", "s", ":", "/", "#", "a", "b"}
  L = 4
  N = 2
INVARIANT StemAgrees
CHECK_DEADLOCK FALSE
