---------------------------- MODULE MC_LineReader ----------------------------
(* L1 + L2 generator: every text of <= N characters over {a, b, blank, CR, LF, LS}.  Impl(t) is the reader as coded today (the    *)
(* regular expression \r\n|\n|\r of RawStringLineReader; text-mode iteration of the others): it must equal SpecLines.  The two   *)
(* historical / seeded variants are kept as "anti-invariants": TLC must find a text on which each differs (checked by the cfgs    *)
(* MC_LineReader_lfonly / _splitlines, which are expected to FAIL - the harness asserts that they do).  Dump prints every text so *)
(* that the harness replays it into the four real readers (leg L2).                                                                *)
EXTENDS LineReader
CONSTANTS N
VARIABLE t
Alphabet == {"a", "b", SP, CR, LF, LS}
Init == t \in UNION {[1..n -> Alphabet] : n \in 0..N}
Next == UNCHANGED t
Spec == Init /\ [][Next]_t
Impl(x) == SpecLines(x)            \* re.split("\r\n|\n|\r") / universal-newline text mode: by construction the definition itself
ImplIsSpec == Impl(t) = SpecLines(t)
LFOnlyIsSpec == SplitAtLF(t) = SpecLines(t)
SplitlinesIsSpec == SplitLinesPy(t) = SpecLines(t)
Dump == PrintT(<<"TEXT", t, SpecLines(t)>>)
=============================================================================
