SPECIFICATION Spec
CONSTANTS
  U <- MC_Usmall
  K = 3
  CfgSet <- MC_CfgPerm
  Perm = FALSE
INVARIANT InvOrderFree
INVARIANT InvC02
