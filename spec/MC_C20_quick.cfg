SPECIFICATION Spec
CONSTANTS
  MaxSources = 2
  FormatSet = {"nt", "turtle", "bogus"}
  CompSet = {"none", "gz", "zip", "bogus"}
  ExampleSet = {"none", "all", "bogus"}
INVARIANT CtorAgrees
INVARIANT CallAgrees
