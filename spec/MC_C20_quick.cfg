SPECIFICATION Spec
CONSTANTS
  MaxSources = 2
  FormatSet = {"nt", "turtle", "bogus", "NT", "Turtle"}
  CompSet = {"none", "gz", "zip", "bogus", "GZ"}
  ExampleSet = {"none", "all", "bogus", "ALL"}
INVARIANT CtorAgrees
INVARIANT CallAgrees
