SPECIFICATION Spec
CONSTANTS
  Nodes = {"a", "b"}
  TYPE = "type"
  Props = {"p"}
  MaxCalls = 3
  MaxTriples = 2
  WithClassCalls = TRUE
INVARIANT Coherent
CHECK_DEADLOCK FALSE
