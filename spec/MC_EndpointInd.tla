--------------------------- MODULE MC_EndpointInd ---------------------------
(***************************************************************************)
(* C15, unbounded in the number of requests: IndInv is an inductive        *)
(* invariant of the cached endpoint graph (without class calls).  TLC      *)
(* checks  IndInit => IndInv  and  IndInv /\ Next => IndInv'  by starting  *)
(* from EVERY state that satisfies IndInv over the small universe and      *)
(* taking one step (state constraint: level <= 2), so Coherent, Cheaper    *)
(* and LocalSound hold after request sequences of any length, not only the *)
(* <= MaxCalls explored by MC_C15.cfg.                                     *)
(***************************************************************************)
EXTENDS EndpointCache
Fetched == UNION {RPO(s) : s \in subjT} \cup UNION {RSP(o) : o \in objT}
IndInv == /\ remote \subseteq Triples
          /\ subjT \subseteq Nodes /\ objT \subseteq Nodes
          /\ local = Fetched                       \* the cache holds exactly what the tracked nodes fetched
          /\ lastAns = lastRef                     \* Coherent
          /\ nq <= nqNoCache                       \* Cheaper
          /\ nq \in Nat /\ nqNoCache \in Nat /\ calls \in Nat
IndInit == /\ remote \in {g \in SUBSET Triples : Cardinality(g) <= MaxTriples}
           /\ subjT \in SUBSET Nodes /\ objT \in SUBSET Nodes
           /\ local = Fetched
           /\ \E n \in Nodes \cup {"none"} : \E dir \in {"po", "sp"} :
                  /\ lastRef = (IF n = "none" THEN {} ELSE IF dir = "po" THEN RPO(n) ELSE RSP(n))
                  /\ lastAns = lastRef
           /\ nq \in 0..1 /\ nqNoCache \in nq..2 /\ calls = 0
IndSpec == IndInit /\ [][Next]_vars
OneStep == TLCGet("level") <= 2
=============================================================================
