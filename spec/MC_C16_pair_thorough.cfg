SPECIFICATION Spec
CONSTANTS
  U <- MC_Usmall
  K = 4
  Pairs <- PairsCapBig
  Rel = "same"
INVARIANT RelHolds
