----------------------------- MODULE SchemaEquiv -----------------------------
(***************************************************************************)
(* C11 and the SHACL part of C05.                                          *)
(* A ShExC constraint is [inv, p, k, card]; a SHACL property shape is      *)
(* [inv, p, res, min, max] with res = <<tag, value>>:                      *)
(*   <<"dt", iri>> | <<"kind", "IRI"|"BlankNode"|"BlankNodeOrIRI"|"Literal">> |        *)
(*   <<"node", shape iri>> | <<"in", iri>> | <<"none", "">>                *)
(* and min / max = -1 when the count is absent.                            *)
(***************************************************************************)
EXTENDS Integers, Sequences, FiniteSets, TLC
PLUS == 0  STAR == -1  OPT == -2
\* ---- the mapping the property states
IsShapeRef(k) == Len(k) > 0 /\ SubSeq(k, 1, 1) = "@"
(* a blank node inside a value set: its label has document scope only (the Turtle writer prints it as '[ ]'), so the two     *)
(* documents agree when they both name *a* blank node; which one is outside what two separate documents can state.        *)
IsBNodeLabel(k) == Len(k) >= 2 /\ SubSeq(k, 1, 2) = "_:"
InValue(k) == IF IsBNodeLabel(k) THEN "_:" ELSE k
ResOf(p, k, instProp) ==
  IF p = instProp THEN <<"in", InValue(k)>>
  ELSE CASE k = "IRI" -> <<"kind", "IRI">>
         [] k = "BNode" -> <<"kind", "BlankNode">>
         [] k = "NONLITERAL" -> <<"kind", "BlankNodeOrIRI">>
         [] IsShapeRef(k) -> <<"node", SubSeq(k, 2, Len(k))>>
         [] OTHER -> <<"dt", k>>
MinOf(card) == CASE card = PLUS -> 1 [] card = STAR -> -1 [] card = OPT -> -1 [] OTHER -> card
MaxOf(card) == CASE card = PLUS -> -1 [] card = STAR -> -1 [] card = OPT -> 1 [] OTHER -> card
Translate(tc, instProp) == [inv |-> tc.inv, p |-> tc.p, res |-> ResOf(tc.p, tc.k, instProp), min |-> MinOf(tc.card), max |-> MaxOf(tc.card)]
\* ---- the serializer as coded (ShaclSerializer._add_constraint and the macro table)
ImplRes(p, k, instProp) ==
  IF p = instProp THEN <<"in", InValue(k)>>
  ELSE CASE k = "IRI" -> <<"kind", "IRI">>
         [] k = "LITERAL" -> <<"kind", "Literal">>
         [] k = "BNode" -> <<"kind", "BlankNode">>
         [] k = "NONLITERAL" -> <<"kind", "BlankNodeOrIRI">>
         [] k = "." -> <<"none", "">>
         [] IsShapeRef(k) -> <<"node", SubSeq(k, 2, Len(k))>>
         [] OTHER -> <<"dt", k>>
ImplTranslate(tc, instProp) == [inv |-> tc.inv, p |-> tc.p, res |-> ImplRes(tc.p, tc.k, instProp), min |-> MinOf(tc.card), max |-> MaxOf(tc.card)]
\* ---- verdict clauses
\* shex = set of [label, cls, tcs (sequence of [inv,p,k,card])], shacl = set of [iri, cls, props (sequence)]: the constraints are
\* compared as bags ("one property shape per triple constraint": a constraint emitted twice, or two merged into one, differ)
BagEq(q1, q2) == /\ Len(q1) = Len(q2)
                 /\ \A i \in 1..Len(q1) : Cardinality({j \in 1..Len(q1) : q1[j] = q1[i]}) = Cardinality({j \in 1..Len(q2) : q2[j] = q1[i]})
NoCounts(q) == [i \in 1..Len(q) |-> [q[i] EXCEPT !.min = 0, !.max = 0]]
EquivClauses(shex, shacl, instProp) ==
  (IF {s.label : s \in shex} # {n.iri : n \in shacl} THEN {"C11.shapes"} ELSE {}) \cup
  (IF \E s \in shex, n \in shacl : s.label = n.iri /\ n.cls # "" /\ s.cls # "" /\ n.cls # s.cls THEN {"C11.targetclass"} ELSE {}) \cup
  UNION {LET want == [i \in 1..Len(s.tcs) |-> Translate(s.tcs[i], instProp)]
         IN UNION {(IF ~BagEq(NoCounts(want), NoCounts(n.props)) THEN {"C11.constraints"} ELSE {}) \cup
                   (IF BagEq(NoCounts(want), NoCounts(n.props)) /\ ~BagEq(want, n.props) THEN {"C11.counts"} ELSE {})
                   : n \in {m \in shacl : m.iri = s.label}}
         : s \in shex}
ToSetOf(q) == {q[i] : i \in 1..Len(q)}
\* ---- SHACL structural invariants (C05): every sh:node object is a declared node shape; every property shape has one path
ShaclClauses(doc) ==
  (IF ~doc.parsed THEN {"C05.turtle"} ELSE {}) \cup
  (IF ~(ToSetOf(doc.nodeRefs) \subseteq ToSetOf(doc.nodeShapes)) THEN {"C05.shacl.node"} ELSE {}) \cup
  (IF \E i \in 1..Len(doc.pathCounts) : doc.pathCounts[i] # 1 THEN {"C05.shacl.path"} ELSE {})
=============================================================================
