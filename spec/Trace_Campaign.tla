--------------------------- MODULE Trace_Campaign ---------------------------
(***************************************************************************)
(* Relational properties: each trace holds up to three executions of the   *)
(* real implementation on related inputs / configurations (a, b, c: graph, *)
(* configuration, re-parsed schema) and the name of the relation that must *)
(* hold between them.  Core is instantiated once per run.                  *)
(*   same     : b must be the same schema as a (tie-aware)   C08 C09 C15 C16 C19 *)
(*   thr      : b has a threshold >= a's                      C12          *)
(*   present  : b differs in a presentation option only       C13          *)
(*   relax    : a all-compliant off, b on                     C13 (C03)    *)
(*   noopt    : a allow_opt on, b off                         C13          *)
(*   noexact  : a exact cardinalities, b disable_exact        C13          *)
(*   or       : a without disjunctions, b with                C13          *)
(*   inverse  : a inverse on G, b inverse off on G, c inverse off on Reverse(G)   C14 *)
(***************************************************************************)
EXTENDS Integers, Sequences, FiniteSets, TLC, Json, IOUtils, SequencesExt, FiniteSetsExt
Traces == JsonDeserialize(IOEnv.TRACE_FILE)
VARIABLE tid
Tr == Traces[tid]
R == INSTANCE Relations WITH da <- Tr.a.graph, ca <- Tr.a.cfg, db <- Tr.b.graph, cb <- Tr.b.cfg, dc <- Tr.c.graph, cc <- Tr.c.cfg
ObsOf(run) == {[key |-> s.key, n |-> s.n,
                tcs |-> {[inv |-> tc.inv, p |-> tc.p, k |-> tc.k, ks |-> ToSet(tc.ks), card |-> tc.card,
                          abs |-> tc.abs, ratio |-> tc.ratio, com |-> ToSet(tc.com)] : tc \in ToSet(s.tcs)}]
               : s \in ToSet(run.shapes)}
\* the node constraint a shape opens with (the IRI stem printed by detect_minimal_iri): part of the shape, not of its presentation
StemsOf(run) == {<<s.key, s.stem>> : s \in ToSet(run.shapes)}
OA == ObsOf(Tr.a)
OB == ObsOf(Tr.b)
OC == ObsOf(Tr.c)
AllOk == Tr.a.status = "ok" /\ Tr.b.status = "ok" /\ Tr.c.status = "ok" /\ Tr.a.parse = "ok" /\ Tr.b.parse = "ok" /\ Tr.c.parse = "ok"

AllRan == Tr.a.status = "ok" /\ Tr.b.status = "ok" /\ Tr.c.status = "ok"
SomeParsed == Tr.a.parse = "ok" \/ Tr.b.parse = "ok" \/ Tr.c.parse = "ok"
Clauses ==
  IF Tr.rel = "bigbag" THEN (IF Tr.b.status # "ok" THEN {"C08.channel." \o Tr.b.status} ELSE R!BigBagClauses(Tr.a.sorted, Tr.b.sorted1, Tr.b.sorted2))
  ELSE IF AllRan /\ ~AllOk /\ SomeParsed THEN {Tr.prop \o ".unparseable"}     \* one output of the related runs is not even a schema
  ELSE IF ~AllOk THEN {"SKIP.crashed"}
  ELSE CASE Tr.rel = "same" -> R!Same(Tr.prop, Tr.how, OA, OB)
         [] Tr.rel = "thr" -> R!Thr(OA, OB)
         [] Tr.rel = "present" -> R!Present(OA, OB) \cup (IF StemsOf(Tr.a) # StemsOf(Tr.b) THEN {"C13.nodeconstraint"} ELSE {})
         [] Tr.rel = "relax" -> R!Relax(OA, OB)
         [] Tr.rel = "noopt" -> R!NoOpt(OA, OB)
         [] Tr.rel = "noexact" -> R!NoExact(OA, OB)
         [] Tr.rel = "or" -> R!Or(OA, OB)
         [] Tr.rel = "inverse" -> R!InverseRel(OA, OB, OC)
         [] Tr.rel = "delivery" -> R!DeliveryClauses(Tr.b.read1, Tr.b.read2) \cup R!Same(Tr.prop, Tr.how, OA, OB)
         [] OTHER -> {"MACHINERY.rel"}
Init == tid \in 1..Len(Traces)
Next == UNCHANGED tid
Spec == Init /\ [][Next]_tid
Report == PrintT(<<"VERDICT", Tr.id, Clauses, [rel |-> Tr.rel]>>)
=============================================================================
