SPECIFICATION Spec
CONSTANTS
  U <- MC_Usmall
  K = 3
  Pairs <- PairsNoOpt
  Rel = "noopt"
INVARIANT RelHolds
