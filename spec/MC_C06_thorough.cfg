SPECIFICATION Spec
CONSTANTS
  L = 4
  Layouts = "core"
INVARIANT GrammarLemma
INVARIANT C06Design
