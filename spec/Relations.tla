----------------------------- MODULE Relations -----------------------------
(***************************************************************************)
(* Relations between up to three extractions (a, b, c) on related inputs   *)
(* or configurations: the relational properties C08 C09 C12 C13 C14 C15    *)
(* C16 C19.  Core is instantiated once per run; the operators take the     *)
(* schemas (observed from the implementation in Trace_Campaign, predicted  *)
(* by the operational model in MC_Pair) as arguments.                      *)
(***************************************************************************)
EXTENDS Integers, Sequences, FiniteSets, TLC, SequencesExt, FiniteSetsExt
VARIABLES da, ca, db, cb, dc, cc
A == INSTANCE Core WITH doc <- da, cfg <- ca
B == INSTANCE Core WITH doc <- db, cfg <- cb
CR == INSTANCE Core WITH doc <- dc, cfg <- cc
PLUS == 0  STAR == -1  OPT == -2

\* ---- same: identical evidence; identical chosen constraints outside the groups where the code breaks a tie by order
\* blank-node relabelling: the schemas never mention node identifiers, so no renaming of the schema is needed
GraphRelated(how) == how = "perm" => (ToSet(da) = ToSet(db) /\ Len(da) = Len(db))
\* known finding: with inverse_paths, a class that is itself an instance gets value-set constraints '^ rdf:type [<_:label>]' that
\* name blank-node labels, so renaming the blank nodes changes the schema
IsBnodeLabel(k) == Len(k) >= 2 /\ SubSeq(k, 1, 2) = "_:"
NoBnodeValueSets(X, ik) == {x \in X : ~(x[2] /\ x[3] = ca.instProp /\ IsBnodeLabel(x[ik]))}
Same(P, how, OA, OB) ==
  LET tg == A!TieGroups           \* computed once (the runs are on the same graph and configuration)
      fa == A!Facts(OA)
      fb == B!Facts(OB)
      oa == A!OutsideTiesOf(fa, tg)
      ob == A!OutsideTiesOf(fb, tg)
      ka == {<<x[1], x[2][1], x[2][2], x[2][3]>> : x \in A!KeysIn(OA)}
      kb == {<<x[1], x[2][1], x[2][2], x[2][3]>> : x \in B!KeysIn(OB)}
      cona == {x \in A!ConsOf(OA) : <<x[1], x[2], x[3]>> \notin tg}
      conb == {x \in B!ConsOf(OB) : <<x[1], x[2], x[3]>> \notin tg}
      relabel == how = "relabel"
      kfbn == relabel /\ (ka # kb \/ oa # ob \/ cona # conb) /\ NoBnodeValueSets(ka, 4) = NoBnodeValueSets(kb, 4)
                 /\ NoBnodeValueSets(oa, 4) = NoBnodeValueSets(ob, 4) /\ NoBnodeValueSets(cona, 4) = NoBnodeValueSets(conb, 4)
  IN (IF ~GraphRelated(how) THEN {"MACHINERY.graphs"} ELSE {}) \cup
     (IF A!Heads(OA) # B!Heads(OB) THEN {P \o ".shapes"} ELSE {}) \cup
     (IF kfbn THEN {"KF." \o P \o ".bnodevalueset"} ELSE
        (IF ka # kb THEN {P \o ".keys"} ELSE {}) \cup
        (IF oa # ob THEN {P \o ".facts"} ELSE {}) \cup
        (IF cona # conb THEN {P \o ".constraints"} ELSE {})) \cup
     (IF oa = ob /\ fa # fb THEN {"KF." \o P \o ".tieorder"} ELSE {})

\* ---- thr (C12)
FactKey(f) == <<f[1], f[2], f[3], f[4], f[5]>>
\* the printed ratios (scaled by 10^4) of the constraint lines and of the alternatives listed in comments: "every figure reported for
\* a surviving alternative is identical" covers the percentage as well as the count (a line can keep its count and lose its ratio).
\* Same exemption as Core!Facts: with disable_exact and without keep_less_specific a '+' line carries the figure of the exact
\* cardinality it generalises, and which one that is depends on what the threshold left.
ThrRatioFacts(obs) ==
  UNION {UNION {(IF tc.ratio >= 0 /\ tc.ks = {} /\ ~(ca.disableExact /\ ~ca.keepLess /\ tc.card = PLUS) THEN {<<s.key, tc.inv, tc.p, tc.k, tc.card, tc.ratio>>} ELSE {}) \cup
                {<<s.key, tc.inv, tc.p, f[1], f[2], f[4]>> : f \in {g \in tc.com : g[4] >= 0}} : tc \in s.tcs} : s \in obs}
\* known finding KF.C12.cleanref (= KF.C02.cleanref seen across thresholds): at the lower threshold a reference to a shape wins
\* the node-kind vote, that shape is removed as empty and the whole constraint goes with it (possibly the referring shape too,
\* in cascade); at the higher threshold the reference is filtered first and the plain node kind stays - the key, or the shape,
\* is present at t2 and absent at t1.  Only keys / shapes that the specification attributes to that removal in run a are excused.
Thr(OA, OB) ==
  LET presentA == {s.key : s \in OA}
      missK == B!KeysIn(OB) \ A!KeysIn(OA)
      missS == {s.key : s \in OB} \ presentA
      droppable == IF ca.removeEmpty THEN A!DroppableSet({}) ELSE {}
      presentB == {s.key : s \in OB}
      \* (a key that run b holds through a reference to a shape run b does not define is not excused: that is no fall-back)
      danglingB(x) == \E s \in OB : s.key = x[1] /\ \E tc \in s.tcs : B!KeyOfTc(tc) = x[2] /\
                         ((A!IsShape(tc.k) /\ A!KeyOfShape(tc.k) \notin presentB) \/ \E k \in tc.ks : A!IsShape(k) /\ A!KeyOfShape(k) \notin presentB)
      cleanK(x) == ca.removeEmpty /\ ~danglingB(x) /\ ((x[1] \notin presentA /\ x[1] \in droppable) \/ A!RefToGone(x[1], x[2], presentA))
  IN
  (IF missK = {} THEN {} ELSE IF \A x \in missK : cleanK(x) THEN {"KF.C12.cleanref"} ELSE {"C12.keys"}) \cup
  (IF missS = {} THEN {} ELSE IF missS \subseteq droppable THEN {"KF.C12.cleanref"} ELSE {"C12.shapes"}) \cup
  (IF \E f \in A!Facts(OA), g \in B!Facts(OB) : FactKey(f) = FactKey(g) /\ f[6] # g[6] /\ f[4] # "NONLITERAL" THEN {"C12.figures"} ELSE {}) \cup
  (IF \E f \in ThrRatioFacts(OA), g \in ThrRatioFacts(OB) : FactKey(f) = FactKey(g) /\ f[6] # g[6] /\ f[4] # "NONLITERAL" THEN {"C12.ratios"} ELSE {}) \cup
  \* the figure of a merged IRI+BNode line is the sum of whatever statements were selected at that threshold (known finding)
  (IF \E f \in A!Facts(OA), g \in B!Facts(OB) : FactKey(f) = FactKey(g) /\ f[6] # g[6] /\ f[4] = "NONLITERAL" THEN {"KF.C12.nlsum"} ELSE {}) \cup
  (IF \E x \in A!Heads(OA), y \in B!Heads(OB) : x[1] = y[1] /\ x[2] # y[2] THEN {"C12.counts"} ELSE {})

\* ---- option relations (C13)
\* known finding KF.C13.shapesns: with a custom shapes_namespace the references keep the default namespace ("@~key")
Untilde(k) == IF Len(k) >= 2 /\ SubSeq(k, 1, 2) = "@~" THEN "@" \o SubSeq(k, 3, Len(k)) ELSE k
UntildeCons(X) == {<<x[1], x[2], x[3], Untilde(x[4]), {Untilde(k) : k \in x[5]}, x[6]>> : x \in X}
Present(OA, OB) == (IF A!ConsOf(OA) = B!ConsOf(OB) THEN {}
                    ELSE IF A!ConsOf(OA) = UntildeCons(B!ConsOf(OB)) THEN {"KF.C13.shapesns"} ELSE {"C13.constraints"}) \cup
                   (IF {s.key : s \in OA} # {s.key : s \in OB} THEN {"C13.shapes"} ELSE {})
\* a's constraint with its figure: below 100 % iff abs # n of its shape
Below(s, tc) == tc.abs >= 0 /\ tc.abs # s.n
RelaxCard(card, allowOpt) == IF card = 1 /\ allowOpt THEN OPT ELSE STAR
Relax(OA, OB) == LET expect == UNION {{<<s.key, tc.inv, tc.p, tc.k, tc.ks,
                                  IF Below(s, tc) THEN RelaxCard(tc.card, cb.allowOpt) ELSE tc.card>> : tc \in s.tcs} : s \in OA}
             \* with disable_exact the relaxation happens before {k>1} is generalised: a prints '+' where b prints '*'
         IN IF expect # B!ConsOf(OB) THEN {"C13.relax"} ELSE {}
NoOpt(OA, OB) == IF {<<x[1], x[2], x[3], x[4], x[5], IF x[6] = OPT THEN STAR ELSE x[6]>> : x \in A!ConsOf(OA)} # B!ConsOf(OB) THEN {"C13.noopt"} ELSE {}
NoExact(OA, OB) == IF {<<x[1], x[2], x[3], x[4], x[5], IF x[6] > 1 THEN PLUS ELSE x[6]>> : x \in A!ConsOf(OA)} # B!ConsOf(OB) THEN {"C13.noexact"} ELSE {}
\* or: every constraint of b is a constraint of a, or a disjunction for the same (shape, direction, property) whose arms are
\* alternatives listed in a's constraint or its comments, with a's cardinality or its relaxation
AltsOf(obs, key, inv, p) == UNION {{IF tc.ks = {} THEN tc.k ELSE ""} \cup {f[1] : f \in tc.com}
                                    : tc \in {t \in UNION {s.tcs : s \in {x \in obs : x.key = key}} : t.inv = inv /\ t.p = p /\ t.p # ca.instProp}}
Or(OA, OB) == (IF \E y \in B!ConsOf(OB) : y[5] = {} /\ y \notin A!ConsOf(OA) THEN {"C13.or.plain"} ELSE {}) \cup
      (IF \E y \in B!ConsOf(OB) : y[5] # {} /\ ~(y[5] \subseteq AltsOf(OA, y[1], y[2], y[3])) THEN {"C13.or.arms"} ELSE {}) \cup
      (IF \E x \in A!ConsOf(OA) : ~\E y \in B!ConsOf(OB) : y[1] = x[1] /\ y[2] = x[2] /\ y[3] = x[3] /\ (y = x \/ (y[5] # {} /\ A!VC(x[3], x[4]) = "nonliteral"))
       THEN {"C13.or.lost"} ELSE {}) \cup
      \* the disjunction keeps the cardinality of the constraint it replaces ("only turns a single non-literal constraint into a
      \* disjunction over the same alternatives")
      (IF \E y \in B!ConsOf(OB) : y[5] # {} /\ ~\E x \in A!ConsOf(OA) : x[1] = y[1] /\ x[2] = y[2] /\ x[3] = y[3] /\ x[6] = y[6] /\ A!VC(x[3], x[4]) = "nonliteral"
       THEN {"C13.or.card"} ELSE {}) \cup
      (IF {s.key : s \in OA} # {s.key : s \in OB} THEN {"C13.shapes"} ELSE {})

\* ---- inverse (C14): a = inverse on, b = inverse off, c = inverse off on the reversed graph
Reversed == {IF t[2] # ca.instProp /\ t[3][1] \in {"IRI", "BNode"} THEN <<t[3], t[2], t[1]>> ELSE t : t \in ToSet(da)}
Dir(obs, inv) == {[s EXCEPT !.tcs = {tc \in s.tcs : tc.inv = inv}] : s \in obs}
NonLit(obs) == {[s EXCEPT !.tcs = {tc \in s.tcs : tc.p # ca.instProp /\ (tc.ks # {} \/ A!VC(tc.p, tc.k) = "nonliteral")}] : s \in obs}
Flip(obs) == {[s EXCEPT !.tcs = {[tc EXCEPT !.inv = ~tc.inv] : tc \in s.tcs}] : s \in obs}
NoTiesOf(X, ta, tc) == {x \in X : <<x[1], x[2], x[3]>> \notin ta /\ <<x[1], ~x[2], x[3]>> \notin tc}
(* Known finding KF.C14.emptyside.  remove_empty_shapes drops a shape without constraints, and with it the constraints that   *)
(* refer to it.  A shape whose nodes have incoming links only (shape-map node selectors on "sink" nodes) therefore exists with *)
(* inverse_paths and not without - and the outgoing constraints of the shapes that point to it differ between the two runs, *)
(* against the letter of C14.  The comparison is made on the shapes both runs have and outside the (shape, direction,        *)
(* property) groups in which the inverse run refers to a shape the other run lost; a shape may only be lost by the run       *)
(* without inverse paths if all its constraints are incoming ones or refer to lost shapes (reversed run: outgoing ones).    *)
ObsKeys(O) == {s.key : s \in O}
RefsOf(tc) == (IF A!IsShape(tc.k) THEN {A!KeyOfShape(tc.k)} ELSE {}) \cup {A!KeyOfShape(k) : k \in {x \in tc.ks : A!IsShape(x)}} \cup
              {A!KeyOfShape(f[1]) : f \in {g \in tc.com : A!IsShape(g[1])}}
CutGroups(O, gone) == UNION {{<<s.key, tc.inv, tc.p>> : tc \in {t \in s.tcs : RefsOf(t) \cap gone # {}}} : s \in O}
Cut(O, gone, groups) == {[s EXCEPT !.tcs = {tc \in s.tcs : <<s.key, tc.inv, tc.p>> \notin groups}] : s \in {x \in O : x.key \notin gone}}
FlipG(groups) == {<<g[1], ~g[2], g[3]>> : g \in groups}
NoTieKeys(X, ta, tc) == {x \in X : <<x[1], x[2][1], x[2][2]>> \notin ta /\ <<x[1], ~x[2][1], x[2][2]>> \notin tc}
\* the printed ratios (scaled by 10^4) of the constraint lines: "the same figures" includes the rounding a number of decimals asks for
RatioFacts(obs) == UNION {{<<s.key, tc.inv, tc.p, tc.k, tc.card, tc.ratio>> : tc \in {t \in s.tcs : t.ratio >= 0 /\ t.ks = {}}} : s \in obs}
InverseRel(OA0, OB0, OC0) ==
  LET goneB == ObsKeys(OA0) \ ObsKeys(OB0)
      goneC == ObsKeys(OA0) \ ObsKeys(OC0)
      \* (the removal cascades: a shape whose only outgoing constraints refer to lost shapes is lost in turn)
      okB == \A s \in OA0 : s.key \in goneB => \A tc \in s.tcs : tc.inv \/ RefsOf(tc) \cap goneB # {}
      \* (instantiation triples are not reversed: an incoming instantiation constraint has no counterpart in the reversed run)
      okC == \A s \in OA0 : s.key \in goneC => \A tc \in s.tcs : ~tc.inv \/ tc.p = ca.instProp \/ RefsOf(tc) \cap goneC # {}
      gB == CutGroups(OA0, goneB)
      gC == CutGroups(OA0, goneC)
      OAb == Cut(OA0, goneB, gB)          \* the inverse run, seen against the run without inverse paths
      OB == Cut(OB0, {}, gB)
      OAc == Cut(OA0, goneC, gC)          \* the inverse run, seen against the run on the reversed graph
      OC == Cut(OC0, {}, FlipG(gC))
      ta == A!TieGroups
      tc == CR!TieGroups
      NoTies(X) == NoTiesOf(X, ta, tc)
  IN (IF ToSet(dc) # Reversed THEN {"MACHINERY.reverse"} ELSE {}) \cup
     (IF goneB \cup goneC # {} /\ okB /\ okC THEN {"KF.C14.emptyside"} ELSE {}) \cup
     (IF ~okB \/ ~(ObsKeys(OB0) \subseteq ObsKeys(OA0)) THEN {"C14.shapes"} ELSE {}) \cup
     (IF ~okC \/ ~(ObsKeys(OC0) \subseteq ObsKeys(OA0)) THEN {"C14.inverseshapes"} ELSE {}) \cup
     (IF A!Heads(OAb) # B!Heads(OB) THEN {"C14.counts"} ELSE {}) \cup
     (IF A!ConsOf(Dir(OAb, FALSE)) # B!ConsOf(OB) THEN {"C14.direct"} ELSE {}) \cup
     (IF A!Facts(Dir(OAb, FALSE)) # B!Facts(OB) THEN {"C14.directfacts"} ELSE {}) \cup
     \* (in a tie group the reference that wins may be one to a shape that is removed later - the key goes with it, KF.C02.cleanref)
     (IF NoTieKeys(A!KeysIn(NonLit(Dir(OAc, TRUE))), ta, tc) # NoTieKeys(A!KeysIn(Flip(NonLit(Dir(OC, FALSE)))), ta, tc) THEN {"C14.inversekeys"} ELSE {}) \cup
     (IF NoTies(A!ConsOf(NonLit(Dir(OAc, TRUE)))) # NoTies(A!ConsOf(Flip(NonLit(Dir(OC, FALSE))))) THEN {"C14.inverse"} ELSE {}) \cup
     (IF NoTies(A!Facts(NonLit(Dir(OAc, TRUE)))) # NoTies(A!Facts(Flip(NonLit(Dir(OC, FALSE))))) THEN {"C14.inversefacts"} ELSE {}) \cup
     (IF RatioFacts(Dir(OAb, FALSE)) # RatioFacts(OB) THEN {"C14.directratios"} ELSE {}) \cup
     (IF NoTies(RatioFacts(NonLit(Dir(OAc, TRUE)))) # NoTies(RatioFacts(Flip(NonLit(Dir(OC, FALSE))))) THEN {"C14.inverseratios"} ELSE {})

\* ---- delivery (C08): what a channel delivered to each pass (hook pass.triple) is the document as a bag.
\* A read event is <<subject kind, subject, predicate, object kind / datatype, object>>; literals are compared on their datatype.
BagOf(q) == [x \in ToSet(q) |-> Cardinality({i \in 1..Len(q) : q[i] = x})]
NormDoc(d) == [i \in 1..Len(d) |-> <<d[i][1][1], d[i][1][2], d[i][2], d[i][3][1], IF d[i][3][1] \in {"IRI", "BNode"} THEN d[i][3][2] ELSE "">>]
NormRead(q) == [i \in 1..Len(q) |-> <<q[i][1], q[i][2], q[i][3], q[i][4], IF q[i][4] \in {"IRI", "BNode"} THEN q[i][5] ELSE "">>]
DeliveryClauses(read1, read2) ==
  (IF BagOf(NormRead(read1)) # BagOf(NormDoc(da)) THEN {"C08.bag.pass1"} ELSE {}) \cup
  (IF BagOf(NormRead(read2)) # BagOf(NormDoc(da)) THEN {"C08.bag.pass2"} ELSE {})
\* for large documents the bags are compared as canonically sorted sequences (sorted by the harness, compared here)
BigBagClauses(expected, read1, read2) ==
  (IF read1 # expected THEN {"C08.bag.pass1"} ELSE {}) \cup (IF read2 # expected THEN {"C08.bag.pass2"} ELSE {})
=============================================================================
