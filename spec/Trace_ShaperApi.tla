-------------------------- MODULE Trace_ShaperApi --------------------------
(* L2/L3 for C18: each trace is one call sequence executed on real Shapers. The trace spec replays it through ShaperApi's  *)
(* actions (every logged call must be an enabled action: the sequence is a behaviour of the specification) and judges    *)
(* every observed result against Fresh.                                                                                  *)
EXTENDS Integers, Sequences, FiniteSets, TLC, Json, IOUtils
Traces == JsonDeserialize(IOEnv.TRACE_FILE)
VARIABLE tid
Tr == Traces[tid]
Shapers == {"A", "B"}
Thresholds == {0, 50, 501, 100}         \* 501: a threshold a rounding error above 50 %
NearPairs == {{50, 501}}
GraphKinds == {"normal", "void"}
Variant == "code"
MaxCalls == 8
S == INSTANCE ShaperApi WITH callerNs <- {"ex"}, built <- Shapers, ns <- [s \in Shapers |-> {"ex", ""}],
        memoThr <- [s \in Shapers |-> -1], memoStages <- [s \in Shapers |-> {}], dupExamples <- [s \in Shapers |-> 0], log <- <<>>,
        graph <- [s \in Shapers |-> "normal"], tracker <- [s \in Shapers |-> "none"], profile <- [s \in Shapers |-> "none"]
CallOf(e) == [kind |-> e.kind, fmt |-> e.fmt, sink |-> e.sink, thr |-> e.thr]
Clauses == UNION {S!CallClauses(Tr.events[i]) \cup (IF CallOf(Tr.events[i]) \notin S!Calls THEN {"MACHINERY.call"} ELSE {})
                  : i \in 1..Len(Tr.events)}
Init == tid \in 1..Len(Traces)
Next == UNCHANGED tid
Spec == Init /\ [][Next]_tid
Report == PrintT(<<"VERDICT", Tr.id, Clauses, [calls |-> Len(Tr.events)]>>)
=============================================================================
