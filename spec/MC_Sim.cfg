SPECIFICATION SimSpec
CONSTANTS
  U <- SimU
  K = 14
  CfgSet <- SimCfgs
  Perm = TRUE
INVARIANT Dump
CHECK_DEADLOCK FALSE
