SPECIFICATION Spec
CONSTANTS
  Shapers = {"A", "B"}
  Thresholds = {0, 50, 501, 100}
  NearPairs = {{50, 501}}
  GraphKinds = {"normal", "void"}
  Variant = "isclose"
  MaxCalls = 3
INVARIANT HistoryFree
INVARIANT CallerUntouched
CHECK_DEADLOCK FALSE
