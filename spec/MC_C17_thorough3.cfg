SPECIFICATION Spec
CONSTANTS
  Alphabet = {"h", ":", "/", "#", "a"}
  L = 4
  N = 3
INVARIANT StemAgrees
CHECK_DEADLOCK FALSE
