SPECIFICATION Spec
CONSTANTS
  U <- MC_Usmall
  K = 3
  CfgSet <- MC_CfgTargets
  Perm = FALSE
INVARIANT InvC10
INVARIANT InvC01
INVARIANT InvC02
