-------------------------- MODULE Trace_TtlReader --------------------------
(* L3 for C07: each trace is one document fed to the real BigTtlTriplesYielder: its token sequence and layout,  *)
(* the body lines actually fed (after the fixed header), what the reader yielded or how it failed.              *)
EXTENDS TtlReader, Json, IOUtils
Traces == JsonDeserialize(IOEnv.TRACE_FILE)
VARIABLE tid
Tr == Traces[tid]
Exp == Expected(Tr.toks)
Norm(t) == <<<<t[1][1], t[1][2]>>, t[2], <<t[3][1], IF t[3][1] \in {"IRI", "BNode"} THEN t[3][2] ELSE "">>>>
Obs == [i \in 1..Len(Tr.triples) |-> Norm(Tr.triples[i])]
Model == ImplReadBody(Tr.lines)
Clauses ==
  (IF ~WellFormed(Tr.toks, 1, "S") THEN {"MACHINERY.generator"} ELSE {}) \cup
  (IF Tr.lines # RenderLines(Tr.toks, Tr.gaps) THEN {"MACHINERY.render"} ELSE {}) \cup
  (IF Tr.status # "ok" THEN {"C07." \o Tr.status}
   ELSE IF Obs # Exp THEN (IF Len(Obs) # Len(Exp) THEN {"C07.count"} ELSE {"C07.triples"}) ELSE {}) \cup
  (IF (Tr.status = "ok") # (Model.err = "") \/ (Tr.status = "ok" /\ Model.out # Obs) THEN {"drift.reader"} ELSE {})
Init == tid \in 1..Len(Traces)
Next == UNCHANGED tid
Spec == Init /\ [][Next]_tid
Report == PrintT(<<"VERDICT", Tr.id, Clauses, [lines |-> Len(Tr.lines)]>>)
=============================================================================
