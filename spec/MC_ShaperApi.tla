---------------------------- MODULE MC_ShaperApi ----------------------------
EXTENDS ShaperApi
(* Histories of ANY length (MC_C18_unbounded.cfg): the log is a history variable - what a call returns depends on the other
   variables only - so states are identified up to the log's last entry (VIEW).  Every appended entry is the last one in the
   state that appends it, where HistoryFree is evaluated; the reachable graph under this view is finite and TLC closes it. *)
LastOnly == <<callerNs, built, ns, memoThr, memoStages, dupExamples, graph, tracker, profile, IF log = <<>> THEN <<>> ELSE <<log[Len(log)]>>>>
=============================================================================
