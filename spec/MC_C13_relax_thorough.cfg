SPECIFICATION Spec
CONSTANTS
  U <- MC_Usmall
  K = 4
  Pairs <- PairsRelax
  Rel = "relax"
INVARIANT RelHolds
