SPECIFICATION Spec
CONSTANTS
  U <- MC_Usmall
  K = 3
  Pairs <- PairsRelax
  Rel = "relax"
INVARIANT RelHolds
