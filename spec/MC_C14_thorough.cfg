SPECIFICATION Spec
CONSTANTS
  U <- MC_Uiri
  K = 4
  Pairs <- PairsInverse
  Rel = "inverse"
INVARIANT RelHolds
