SPECIFICATION Spec
INVARIANT TableAgrees
