SPECIFICATION Spec
CONSTANTS
  U <- MC_Usmall
  K = 3
  Pairs <- PairsOr
  Rel = "or"
INVARIANT RelHolds
