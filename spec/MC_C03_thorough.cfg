SPECIFICATION Spec
CONSTANTS
  U <- MC_U
  K = 4
  CfgSet <- MC_CfgStrict
  Perm = FALSE
INVARIANT InvC03
