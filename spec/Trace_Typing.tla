---------------------------- MODULE Trace_Typing ----------------------------
(* L3 for the literal-typing table: each trace is one real extraction of a one-instance graph whose only other triple carries the  *)
(* literal (lexical class, declared kind), delivered through one channel; `kinds` is what the library printed for that property.    *)
EXTENDS LiteralTyping, Json, IOUtils
Traces == JsonDeserialize(IOEnv.TRACE_FILE)
VARIABLE tid
Tr == Traces[tid]
Expected == Type(Tr.channel, Tr.form, Tr.lc, Tr.decl, Tr.infer)
Declared == IF Tr.form = "shorthand" THEN ShorthandDecl(Tr.lc) ELSE Tr.decl
Truth == Faithful(Tr.lc, Declared)
Observed == IF Tr.status = "ok" /\ Len(Tr.kinds) = 1 THEN Tr.kinds[1] ELSE "none"
\* where a property speaks: the local channels on quoted literals and standard parsers on shorthand (C06 / C07 / C08), the
\* streaming reader's integer shorthand (C07), the endpoint on C15's domain
InProperty == IF Tr.channel = "endpoint" THEN C15Domain(Tr.lc, Tr.decl, Tr.infer)
              ELSE IF Tr.form = "quoted" THEN TRUE
              ELSE Tr.channel \in RdflibChannels \/ (Tr.channel = "turtle_iter" /\ Tr.infer /\ Tr.lc \in Integers_)
Clauses ==
  (IF Tr.witness # Witness(Tr.lc) \/ ~WellTyped(Tr.lc, Declared) THEN {"MACHINERY.vocabulary"} ELSE {}) \cup
  (IF Tr.status # "ok" THEN {Tr.prop \o ".typing.crash"} ELSE {}) \cup
  (IF Tr.status = "ok" /\ Observed # Expected
   THEN {IF InProperty THEN Tr.prop \o ".typing" ELSE "drift.typing"} ELSE {}) \cup
  (IF Tr.status = "ok" /\ Observed = Expected /\ InProperty /\ Expected # Truth THEN {"MACHINERY.model"} ELSE {}) \cup
  (IF Tr.status = "ok" /\ Observed = Expected /\ Tr.channel = "endpoint" /\ C15Finding(Tr.lc, Tr.decl, Tr.infer)
   THEN {"KF.C15.typedbytext"} ELSE {})
Init == tid \in 1..Len(Traces)
Next == UNCHANGED tid
Spec == Init /\ [][Next]_tid
Report == PrintT(<<"VERDICT", Tr.id, Clauses, [expected |-> Expected, truth |-> Truth]>>)
=============================================================================
