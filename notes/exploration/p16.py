from probe import *
rnd = random.Random(61); stats = collections.Counter(); ex = {}
def chk(name, ok, detail=None):
    stats[name + (":ok" if ok else ":DIFF")] += 1
    if not ok and name not in ex: ex[name] = detail
def noB(T): return [t for t in T if t[0][0] != "bnode" and t[2][0] != "bnode"]
for i in range(500):
    T = noB(gen_graph(rnd))
    classes = sorted({o[1] for s, p, o in T if p == RDF_TYPE})
    if not classes: continue
    k = rnd.randint(1, 3); mode = rnd.choice(["all", "tc"])
    kw = dict(all_classes_mode=True) if mode == "all" else dict(all_classes_mode=False, target_classes=classes)
    seen = collections.Counter(); R = []; dropped = set()
    for t in T:
        if t[1] == RDF_TYPE:
            if seen[t[2][1]] >= k: dropped.add((t[0][1], t[2][1])); continue
            seen[t[2][1]] += 1
        R.append(t)
    multi = any(sum(1 for t in T if t[1] == RDF_TYPE and t[0][1] == n) > 1 for n, _ in dropped)
    a = proj(run(T, 0, instances_cap=k, **kw)); b = proj(run(R, 0, **kw))
    if isinstance(a, str) or isinstance(b, str): stats["crash"] += 1; continue
    same = cons(a, with_fig=True) == cons(b, with_fig=True) and facts(a) == facts(b) and {s["label"]: s["n"] for s in a} == {s["label"]: s["n"] for s in b}
    chk("cap_eq_restricted_doc[%s,%s]" % (mode, "multi" if multi else "single"), same, (i, k, sorted(cons(a, with_fig=True) ^ cons(b, with_fig=True))[:3]))
    # counts
    want = {SH + c[len(EX):]: min(k, len({t[0][1] for t in T if t[1] == RDF_TYPE and t[2][1] == c})) for c in classes}
    chk("cap_counts[%s]" % mode, {s["label"]: s["n"] for s in a} == want, (i, k, {s["label"]: s["n"] for s in a}, want))
    # big cap changes nothing
    c = proj(run(T, 0, instances_cap=50, **kw)); d = proj(run(T, 0, **kw))
    chk("bigcap_same", (not isinstance(c, str)) and cons(c, with_fig=True) == cons(d, with_fig=True) and facts(c) == facts(d))
print(sorted(stats.items()))
for k, v in ex.items(): print(k, v)
