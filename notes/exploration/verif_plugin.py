"""Prototype: capture every Shaper run of the repository's own tests (args, triples read in each pass, output)."""
import json, os, functools
OUT = os.environ.get("VERIF_TRACE_OUT", "/tmp/plug/traces.ndjson")
_cur = {"test": None}
def pytest_runtest_setup(item): _cur["test"] = item.nodeid
def _term(x):
    n = type(x).__name__
    if n == "IRI": return ["IRI", str(x)]
    if n == "BNode": return ["BNode", str(x)]
    if n == "Literal": return [x.elem_type, str(x)]
    return [n, str(x)]
def pytest_configure(config):
    from shexer import shaper as S
    from shexer.core.instances.instance_tracker import InstanceTracker
    from shexer.core.profiling.class_profiler import ClassProfiler
    log = []
    orig_init = S.Shaper.__init__
    def init(self, *a, **kw):
        self._vt = {"test": _cur["test"], "ctor": {k: (v if isinstance(v, (str, int, float, bool, type(None), list, dict)) else type(v).__name__) for k, v in kw.items()}, "pass1": [], "pass2": [], "calls": []}
        log.append(self._vt)
        return orig_init(self, *a, **kw)
    S.Shaper.__init__ = init
    orig_shex = S.Shaper.shex_graph
    def shex(self, *a, **kw):
        rec = {"kw": {k: v for k, v in kw.items() if isinstance(v, (str, int, float, bool, type(None)))}}
        try:
            r = orig_shex(self, *a, **kw); rec["status"] = "ok"
            if isinstance(r, str): rec["out"] = r
            elif kw.get("output_file") and os.path.exists(kw["output_file"]): rec["out"] = open(kw["output_file"]).read()
            return r
        except BaseException as e:
            rec["status"] = "raise:" + type(e).__name__; raise
        finally:
            self._vt["calls"].append(rec)
    S.Shaper.shex_graph = shex
    # triples: wrap the two pass loops through the builder methods of Shaper
    ob1 = S.Shaper._build_instance_tracker
    def b1(self):
        t = ob1(self); vt = self._vt
        for obj in [t] + list(getattr(t, "_secondary_instance_trackers", [])) + ([getattr(t, "_reference_instance_tracker")] if hasattr(t, "_reference_instance_tracker") else []):
            y = getattr(obj, "_triples_yielder", None)
            if y is not None and not hasattr(y, "_vt_wrapped"):
                oy = y.yield_triples
                def wrapped(*a, _oy=oy, **k):
                    for tr in _oy(*a, **k):
                        if len(vt["pass1"]) < 3000: vt["pass1"].append([_term(tr[0])[1], str(tr[1])] + _term(tr[2]))
                        yield tr
                y.yield_triples = wrapped; y._vt_wrapped = True
        return t
    S.Shaper._build_instance_tracker = b1
    ob2 = S.Shaper._build_class_profiler
    def b2(self):
        p = ob2(self); vt = self._vt; y = p._triples_yielder; oy = y.yield_triples
        def wrapped(*a, **k):
            for tr in oy(*a, **k):
                if len(vt["pass2"]) < 3000: vt["pass2"].append([_term(tr[0])[1], str(tr[1])] + _term(tr[2]))
                yield tr
        y.yield_triples = wrapped
        return p
    S.Shaper._build_class_profiler = b2
    config._vt_log = log
def pytest_unconfigure(config):
    with open(OUT, "w") as f:
        for r in getattr(config, "_vt_log", []): f.write(json.dumps(r) + "\n")
