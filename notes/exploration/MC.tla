---- MODULE MC ----
EXTENDS Shx
T == "type"
MCU == <<
 <<"a",T,<<"IRI","C">>>>, <<"a",T,<<"IRI","D">>>>, <<"b",T,<<"IRI","C">>>>, <<"b",T,<<"IRI","D">>>>, <<"_x",T,<<"IRI","C">>>>, <<"_x",T,<<"IRI","D">>>>,
 <<"a","p",<<"IRI","b">>>>, <<"a","p",<<"IRI","u">>>>, <<"a","p",<<"BNode","_x">>>>, <<"a","p",<<"str","s1">>>>, <<"a","p",<<"str","s2">>>>, <<"a","p",<<"int","i1">>>>,
 <<"b","p",<<"IRI","a">>>>, <<"b","p",<<"IRI","u">>>>, <<"b","p",<<"BNode","_x">>>>, <<"b","p",<<"str","s1">>>>, <<"b","p",<<"str","s2">>>>, <<"b","p",<<"int","i1">>>>,
 <<"_x","p",<<"IRI","a">>>>, <<"_x","p",<<"IRI","b">>>>, <<"_x","p",<<"str","s1">>>>, <<"_x","p",<<"str","s2">>>>
>>
B == {TRUE, FALSE}
MCCfgs == {[thr |-> t, keepLess |-> kl, discardUseless |-> du, allCompliant |-> ac, allowOpt |-> ao, disableExact |-> de, disableOr |-> TRUE, redundantOr |-> FALSE] :
             t \in {<<0,1>>, <<1,2>>, <<1,1>>}, kl \in B, du \in B, ac \in B, ao \in B, de \in B}
MCCfgsStrict == {[thr |-> <<0,1>>, keepLess |-> TRUE, discardUseless |-> du, allCompliant |-> TRUE, allowOpt |-> ao, disableExact |-> de, disableOr |-> TRUE, redundantOr |-> FALSE] :
             du \in B, ao \in B, de \in B}
====
