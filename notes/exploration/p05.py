from probe import *
import re
rnd = random.Random(111); stats = collections.Counter(); ex = {}
def chk(name, ok, detail=None):
    stats[name + (":ok" if ok else ":DIFF")] += 1
    if not ok and name not in ex: ex[name] = detail
def noB(T): return [t for t in T if t[0][0] != "bnode" and t[2][0] != "bnode"]
def analyse(txt):
    pj = Proj(txt)
    labels = [s["label"] for s in pj.shapes]
    refs = {k[1:] for s in pj.shapes for tc in s["tcs"] for k in ([tc["k"]] + tc["ks"]) if k.startswith("@")}
    pre = re.findall(r"^PREFIX\s+([^:\s]*):\s*<([^>]*)>", txt, re.M)
    return labels, refs, pre, any(tc["k"] == "NONLITERAL" for s in pj.shapes for tc in s["tcs"])
for i in range(500):
    T = gen_graph(rnd) if rnd.random() < .5 else noB(gen_graph(rnd))
    classes = sorted({o[1] for s, p, o in T if p == RDF_TYPE}); nodes = sorted({s[1] for s, p, o in T if s[0] == "iri"})
    if not classes or not nodes: continue
    thr = rnd.choice([0, .5, .67, 1]); rem = rnd.random() < .7
    nsd = rnd.choice([None, {EX: "ex"}, {EX: ""}, {EX: "", "http://a/": "weso-s"}, {EX: "", "http://a/": "weso-s", "http://b/": "shapes", "http://c/": "w-shapes"}])
    mode = rnd.choice(["all", "tc", "sm", "custom"])
    kw = dict(remove_empty_shapes=rem)
    if nsd is not None: kw["namespaces_dict"] = dict(nsd)
    if mode == "all": kw["all_classes_mode"] = True
    elif mode == "tc": kw.update(all_classes_mode=False, target_classes=classes[:2] + ["http://ex.org/Absent"])
    elif mode == "sm": kw.update(all_classes_mode=False, shape_map_raw="\n".join("<%s>@<http://l/S%d>" % (n, j % 2) for j, n in enumerate(nodes[:4])))
    else: kw.update(all_classes_mode=True, instantiation_property=EX + "p0")
    txt = run(T, thr, **kw)
    if txt.startswith(("EXC", "HANG")): stats["crash:" + txt[:30]] += 1; continue
    try: labels, refs, pre, nonlit = analyse(txt)
    except Exception as e: chk("projectable", False, (i, mode, str(e)[:100])); continue
    chk("labels_unique", len(labels) == len(set(labels)), (i, labels))
    chk("refs_closed[%s,rem=%s]" % (mode, rem), refs <= set(labels), (i, mode, thr, rem, sorted(refs - set(labels))))
    chk("prefix_functional", len({p for p, n in pre}) == len(pre), (i, pre))
    if nonlit: stats["contains_NONLITERAL_token"] += 1
print(sorted(stats.items()))
for k, v in ex.items(): print(k, str(v)[:400])
