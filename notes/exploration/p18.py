from probe import *
import tempfile, os, re
rnd = random.Random(101); stats = collections.Counter(); ex = {}
def chk(name, ok, detail=None):
    stats[name + (":ok" if ok else ":DIFF")] += 1
    if not ok and name not in ex: ex[name] = detail
d = tempfile.mkdtemp()
for i in range(150):
    T = [t for t in gen_graph(rnd) if t[0][0] != "bnode" and t[2][0] != "bnode"]
    if not any(t[1] == RDF_TYPE for t in T): continue
    nt = to_nt(T); kw = dict(raw_graph=nt, all_classes_mode=True, instances_report_mode=MIXED_INSTANCES)
    fresh = lambda fmt, thr, **k: Shaper(**{**kw, **k}).shex_graph(string_output=True, output_format=fmt, acceptance_threshold=thr)
    try:
        s = Shaper(**kw)
        a1 = s.shex_graph(string_output=True); a2 = s.shex_graph(string_output=True)
        chk("repeat_same", a1 == a2)
        p = os.path.join(d, "o.shex"); s.shex_graph(output_file=p); chk("file_eq_string", open(p).read() == a1)
        b = s.shex_graph(string_output=True, output_format=SHACL_TURTLE); a3 = s.shex_graph(string_output=True)
        chk("shexc_after_shacl_same", a3 == a1, (i,))
        chk("shacl_eq_fresh", sorted(b.split("\n")) == sorted(fresh(SHACL_TURTLE, 0).split("\n")))
        c = s.shex_graph(string_output=True, acceptance_threshold=1)
        chk("later_threshold_honoured", c == fresh(SHEXC, 1), (i,))
        # examples duplicates
        s2 = Shaper(examples_mode=ALL_EXAMPLES, **kw); e1 = s2.shex_graph(string_output=True); e2 = s2.shex_graph(string_output=True)
        chk("examples_repeat_same", e1 == e2)
        # shared namespaces dict
        nsd = {EX: "ex"}
        x1 = Shaper(namespaces_dict=nsd, **kw); o1 = x1.shex_graph(string_output=True)
        x2 = Shaper(namespaces_dict=nsd, **kw); o2 = x2.shex_graph(string_output=True)
        chk("shared_nsdict_same_output", o1 == o2, (i, [l for l in o2.split("\n") if l.startswith("PREFIX")]))
        chk("caller_dict_untouched", nsd == {EX: "ex"}, nsd)
    except Exception as e:
        stats["crash:" + type(e).__name__] += 1
# large output > 10000 lines
big = "".join("<http://ex.org/n%d> <%s> <http://ex.org/K%d> .\n<http://ex.org/n%d> <http://ex.org/p> \"v\" .\n" % (j, RDF_TYPE, j, j) for j in range(2600))
s = Shaper(raw_graph=big, all_classes_mode=True); t = s.shex_graph(string_output=True); p = os.path.join(d, "big.shex"); Shaper(raw_graph=big, all_classes_mode=True).shex_graph(output_file=p)
print("big lines", t.count("\n"), "file_eq_string", open(p).read() == t, "shapes", len(re.findall(r"^\{", t, re.M)))
print(sorted(stats.items()))
for k, v in ex.items(): print(k, str(v)[:300])
