import warnings, random, json, sys, time, signal; warnings.simplefilter("ignore")
from shexer.shaper import Shaper
from shexer.consts import NT, MIXED_INSTANCES
from shexc_proj import Proj
RDF_TYPE = "http://www.w3.org/1999/02/22-rdf-syntax-ns#type"
EX = "http://ex.org/"; XSD = "http://www.w3.org/2001/XMLSchema#"; SH = "http://weso.es/shapes/"
class TO(Exception): pass
signal.signal(signal.SIGALRM, lambda *a: (_ for _ in ()).throw(TO()))
def gen_graph(rnd):
    nn = rnd.randint(2, 7)
    nodes = [("iri", EX + "n%d" % i) if rnd.random() < 0.8 else ("bnode", "_:b%d" % i) for i in range(nn)]
    classes = [EX + "C%d" % i for i in range(rnd.randint(1, 3))]
    props = [EX + "p%d" % i for i in range(rnd.randint(1, 4))]
    untyped = [("iri", EX + "u%d" % i) for i in range(2)] + [("bnode", "_:u0")]
    T = set()
    for n in nodes:
        for c in classes:
            if rnd.random() < 0.55: T.add((n, RDF_TYPE, ("iri", c)))
    for n in nodes:
        for p in props:
            for _ in range(rnd.choice([0, 0, 1, 1, 2, 3])):
                r = rnd.random()
                if r < 0.35: o = rnd.choice(nodes)
                elif r < 0.5: o = rnd.choice(untyped)
                elif r < 0.8: o = ("lit", XSD + "string", "s%d" % rnd.randint(0, 3))
                else: o = ("lit", XSD + "integer", str(rnd.randint(0, 3)))
                T.add((n, p, o))
    T = sorted(T, key=lambda t: str(t)); rnd.shuffle(T)
    return T
def term(t):
    if t[0] == "iri": return "<%s>" % t[1]
    if t[0] == "bnode": return t[1]
    return '"%s"^^<%s>' % (t[2], t[1]) if t[1] != XSD + "string" else '"%s"' % t[2]
def to_nt(T): return "".join("%s <%s> %s .\n" % (term(s), p, term(o)) for s, p, o in T)
def okind(o): return ("IRI", o[1]) if o[0] == "iri" else ("BNode", o[1]) if o[0] == "bnode" else (o[1], o[2])
def main(seed, n_cases, out):
    rnd = random.Random(seed); traces = []; t0 = time.time(); crashes = 0
    for i in range(n_cases):
        T = gen_graph(rnd)
        cfg = dict(thr=rnd.choice([[0, 1], [0, 1], [1, 2], [1, 3], [2, 3], [1, 1]]), keepLess=rnd.random() < .6, discardUseless=rnd.random() < .5,
                   allCompliant=rnd.random() < .6, allowOpt=rnd.random() < .7, disableExact=rnd.random() < .3)
        signal.alarm(5)
        try:
            s = Shaper(all_classes_mode=True, raw_graph=to_nt(T), input_format=NT, instances_report_mode=MIXED_INSTANCES,
                       keep_less_specific=cfg["keepLess"], discard_useless_constraints_with_positive_closure=cfg["discardUseless"],
                       all_instances_are_compliant_mode=cfg["allCompliant"], allow_opt_cardinality=cfg["allowOpt"],
                       disable_exact_cardinality=cfg["disableExact"])
            text = s.shex_graph(string_output=True, acceptance_threshold=cfg["thr"][0] / cfg["thr"][1])
            status = "ok"
        except TO: status = "hang"; text = ""
        except Exception as e: status = "raise:" + type(e).__name__; text = ""; crashes += 1
        signal.alarm(0)
        shapes = []
        if status == "ok":
            pj = Proj(text)
            for sh in pj.shapes:
                assert sh["label"].startswith(SH), sh["label"]
                shapes.append({"cls": EX + sh["label"][len(SH):], "n": sh["n"],
                               "tcs": [{**tc, "k": tc["k"].replace("@" + SH, "@" + EX), "ks": [k.replace("@" + SH, "@" + EX) for k in tc["ks"]],
                                        "com": [[c[0].replace("@" + SH, "@" + EX), c[1], c[2]] for c in tc["com"]]} for tc in sh["tcs"]]})
        traces.append({"id": i, "status": status, "cfg": cfg, "graph": [[s[1], p, okind(o)[0], okind(o)[1]] for s, p, o in T], "shapes": shapes})
    json.dump(traces, open(out, "w"))
    print("cases", n_cases, "crashes", crashes, "wall", round(time.time() - t0, 2))
if __name__ == "__main__": main(int(sys.argv[1]), int(sys.argv[2]), sys.argv[3])
