from probe import *
rnd = random.Random(7); stats = collections.Counter(); ex = {}
base = dict(keep_less_specific=True, discard_useless_constraints_with_positive_closure=True, all_instances_are_compliant_mode=True, allow_opt_cardinality=True, disable_exact_cardinality=False)
for i in range(600):
    T = gen_graph(rnd)
    b = {k: (rnd.random() < .5) for k in base}; thr = rnd.choice([0, 0, .5, 1])
    ref = proj(run(T, thr, **b))
    if isinstance(ref, str): stats["crash"] += 1; continue
    def chk(name, ok, detail=None):
        stats[name + (":ok" if ok else ":DIFF")] += 1
        if not ok and name not in ex: ex[name] = (i, b, thr, detail)
    # presentation options
    for name, kw in [("disable_comments", dict(disable_comments=True)), ("decimals2", dict(decimals=2)), ("report_ratio", dict(instances_report_mode=RATIO_INSTANCES)),
                     ("report_abs", dict(instances_report_mode=ABSOLUTE_INSTANCES)), ("nsdict", dict(namespaces_dict={EX: "ex", XSD: "xsd"})), ("shapes_ns", dict(shapes_namespace="http://sh.org/s/"))]:
        o = proj(run(T, thr, **{**b, **kw}))
        if isinstance(o, str): chk(name, False, o); continue
        a_, b_ = cons(ref), cons(o)
        if name == "shapes_ns": b_ = {tuple(str(x).replace("http://sh.org/s/", SH) if isinstance(x, str) else x for x in t) for t in b_}
        chk(name, a_ == b_, (a_ ^ b_))
    # allow_opt off: only ? -> *
    if b["allow_opt_cardinality"]:
        o = proj(run(T, thr, **{**b, "allow_opt_cardinality": False}))
        exp = {t[:4] + ((-1,) if t[4] == -2 else (t[4],)) for t in cons(ref)}
        chk("allow_opt_off", not isinstance(o, str) and cons(o) == exp, None if isinstance(o, str) else cons(o) ^ exp)
    # disable_exact on: only {k>1} -> +
    if not b["disable_exact_cardinality"]:
        o = proj(run(T, thr, **{**b, "disable_exact_cardinality": True}))
        exp = {t[:4] + ((0,) if t[4] > 1 else (t[4],)) for t in cons(ref)}
        chk("disable_exact_on", not isinstance(o, str) and cons(o) == exp, None if isinstance(o, str) else cons(o) ^ exp)
    # all compliant on vs off: same keys+kinds; cards rewritten only where n < N
    if not b["all_instances_are_compliant_mode"]:
        o = proj(run(T, thr, **{**b, "all_instances_are_compliant_mode": True}))
        if isinstance(o, str): chk("all_compliant", False, o)
        else:
            N = {sh["label"]: sh["n"] for sh in ref}
            exp = set()
            for sh in ref:
                for tc in sh["tcs"]:
                    k = tc["k"] if not tc["ks"] else "|".join(sorted(tc["ks"]))
                    card = tc["card"]
                    if tc["n"] != N[sh["label"]]:
                        card = -2 if (b["allow_opt_cardinality"] and card == 1) else -1
                    if b["disable_exact_cardinality"] and card > 1: card = 0
                    exp.add((sh["label"], tc["inv"], tc["p"], k, card))
            chk("all_compliant", cons(o) == exp, cons(o) ^ exp)
print(sorted(stats.items()))
for k, v in ex.items(): print(k, v)
