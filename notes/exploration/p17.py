from probe import *
import re
rnd = random.Random(81); stats = collections.Counter(); ex = {}
def chk(name, ok, detail=None):
    stats[name + (":ok" if ok else ":DIFF")] += 1
    if not ok and name not in ex: ex[name] = detail
def noB(T): return [t for t in T if t[0][0] != "bnode" and t[2][0] != "bnode"]
def lcp(a, b):
    i = 0
    while i < min(len(a), len(b)) and a[i] == b[i]: i += 1
    return a[:i]
def stem(iris):
    p = iris[0]
    for x in iris[1:]: p = lcp(p, x)
    idx = max(p.rfind(":"), p.rfind("/"), p.rfind("#"))
    if idx < 0: return None
    c = p[:idx + 1]
    if len(c) < 3 or re.fullmatch(r"[a-z]+://", c) or re.fullmatch(r"[a-z]+:", c): return None
    return c
NSS = ["http://ex.org/r/", "http://ex.org/r/deep/", "https://other.org/", "http://ex.org/q#"]
for i in range(400):
    T0 = noB(gen_graph(rnd))
    # re-home nodes into several namespaces
    m = {}
    def rn(t):
        if t[0] != "iri" or not t[1].startswith(EX + "n"): return t
        if t[1] not in m: m[t[1]] = rnd.choice(NSS) + t[1][len(EX):]
        return ("iri", m[t[1]])
    T = [(rn(s), p, rn(o)) for s, p, o in T0]
    classes = sorted({o[1] for s, p, o in T if p == RDF_TYPE})
    if not classes: continue
    inv = rnd.random() < .4
    base = run(T, 0, inverse_paths=inv); 
    if base.startswith(("EXC", "HANG")): stats["crash"] += 1; continue
    for mode in [None, SHAPE_EXAMPLES, CONSTRAINT_EXAMPLES, ALL_EXAMPLES]:
        txt = run(T, 0, inverse_paths=inv, detect_minimal_iri=True, examples_mode=mode)
        if txt.startswith(("EXC", "HANG")): chk("runs[%s]" % mode, False, (i, txt)); continue
        try: o = proj(txt)
        except Exception as e: chk("projectable[%s]" % mode, False, (i, str(e)[:80])); continue
        chk("constraints_unchanged[%s]" % mode, cons(o, True) == cons(proj(base), True) and facts(o) == facts(proj(base)))
        # stems
        for line in txt.split("\n"):
            mm = re.match(r"^(\S+)\s+(?:\[<([^>]*)>~\]\s+AND)?", line)
            if line and not line.startswith((" ", "PREFIX", "{", "}")) and mm:
                lab = mm.group(1); cls = EX + lab.split(":")[-1] if lab.startswith(":") else None
                if cls is None: continue
                insts = sorted({s[1] for s, p, o_ in T if p == RDF_TYPE and o_[1] == cls})
                chk("stem", mm.group(2) == stem(insts), (i, insts, mm.group(2), stem(insts)))
        if mode in (SHAPE_EXAMPLES, ALL_EXAMPLES):
            for mm in re.finditer(r"^\} // rdfs:comment <?([^>\s]+)>?", txt, re.M):
                pass
print(sorted(stats.items()))
for k, v in ex.items(): print(k, v)
