from probe import *
rnd = random.Random(51); stats = collections.Counter(); ex = {}
def chk(name, ok, detail=None):
    stats[name + (":ok" if ok else ":DIFF")] += 1
    if not ok and name not in ex: ex[name] = detail
NS = {EX: "ex", XSD: "xsd"}
def noB(T): return [t for t in T if t[0][0] != "bnode" and t[2][0] != "bnode"]
def runx(T, thr=0, **kw):
    kw.setdefault("instances_report_mode", MIXED_INSTANCES)
    signal.alarm(10)
    try:
        return proj(Shaper(raw_graph=to_nt(T), input_format=NT, **kw).shex_graph(string_output=True, acceptance_threshold=thr))
    except TO: return "HANG"
    except Exception as e: return "EXC:" + type(e).__name__ + ":" + str(e)[:80]
    finally: signal.alarm(0)
def spell(iri, how): return {"full": iri, "br": "<%s>" % iri, "pre": "ex:" + iri[len(EX):]}[how]
for i in range(400):
    T = noB(gen_graph(rnd))
    classes = sorted({o[1] for s, p, o in T if p == RDF_TYPE}); nodes = sorted({s[1] for s, p, o in T})
    props = sorted({p for s, p, o in T if p != RDF_TYPE})
    if not classes or not props: continue
    inst = lambda c: {s[1] for s, p, o in T if p == RDF_TYPE and o[1] == c}
    # --- target classes in 3 spellings
    sub = [c for c in classes if rnd.random() < .6] or classes[:1]
    how = rnd.choice(["full", "br", "pre"])
    o = runx(T, target_classes=[spell(c, how) for c in sub], namespaces_dict=dict(NS))
    if isinstance(o, str): chk("tc_" + how, False, (i, o))
    else: chk("tc_" + how, {s["label"]: s["n"] for s in o} == {SH + c[len(EX):]: len(inst(c)) for c in sub}, (i, how, {s["label"]: s["n"] for s in o}, {c: len(inst(c)) for c in sub}))
    # --- shape map selectors
    n0 = rnd.choice(nodes); p0 = rnd.choice(props); c0 = rnd.choice(classes)
    objs = sorted({o[1] for s, p, o in T if p == p0 and o[0] == "iri"})
    sels = [("node_br", "<%s>" % n0, {n0}), ("node_pre", "ex:" + n0[len(EX):], {n0}),
            ("focus_a", "{FOCUS a ex:%s}" % c0[len(EX):], inst(c0)), ("focus_type_full", "{FOCUS <%s> <%s>}" % (RDF_TYPE, c0), inst(c0)),
            ("focus_p_wild", "{FOCUS ex:%s _}" % p0[len(EX):], {s[1] for s, p, o in T if p == p0}),
            ("obj_focus", "{_ ex:%s FOCUS}" % p0[len(EX):], {o[1] for s, p, o in T if p == p0 and o[0] == "iri"}),
            ("sparql", "SPARQL 'select ?x where {?x <%s> <%s>}'" % (RDF_TYPE, c0), inst(c0))]
    if objs: sels.append(("focus_p_obj", "{FOCUS ex:%s <%s>}" % (p0[len(EX):], objs[0]), {s[1] for s, p, o in T if p == p0 and o[1] == objs[0]}))
    for name, sel, exp in sels:
        lab = rnd.choice(["<http://lab.org/L>", "ex:L"]); labiri = "http://lab.org/L" if lab.startswith("<") else EX + "L"
        for syn in ("fsm", "json"):
            smraw = "%s@%s" % (sel, lab) if syn == "fsm" else json.dumps([{"nodeSelector": sel, "shapeLabel": lab}])
            o = runx(T, shape_map_raw=smraw, shape_map_format=FIXED_SHAPE_MAP if syn == "fsm" else JSON, namespaces_dict=dict(NS))
            # nodes that are not subjects produce no features -> shape removed (documented); count only subjects-with-triples
            if isinstance(o, str): chk(name + "_" + syn, False, (i, sel, o)); continue
            got = {s["label"]: s["n"] for s in o}
            expn = len(exp)
            has_feat = any(s[1] in exp for s, p, o_ in T)
            want = {labiri: expn} if (expn and has_feat) else {}
            got = {(labiri if k == SH + "L" else k): v for k, v in got.items()}
            chk(name + "_" + syn, got == want, (i, sel, lab, got, want))
print(sorted(stats.items()))
for k, v in ex.items(): print(k, v)
