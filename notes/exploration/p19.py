import sys, hashlib
sys.path.insert(0, "/tmp/proto6")
from probe import *
import rdflib
from SPARQLWrapper import SPARQLWrapper as SW
STATE = {"g": None}
class FakeResult:
    def __init__(self, q): self.q = q
    def convert(self): return json.loads(STATE["g"].query(self.q).serialize(format="json"))
SW.query = lambda self: FakeResult(self.queryString)
rnd = random.Random(91); out = []
for i in range(40):
    T = [t for t in gen_graph(rnd) if t[0][0] == "iri" and t[2][0] != "bnode"]
    classes = sorted({o[1] for s, p, o in T if p == RDF_TYPE})
    if not classes: continue
    nt = to_nt(T); g = rdflib.Graph(); g.parse(data=nt, format="nt"); STATE["g"] = g
    for kw in [dict(url_endpoint="http://fake/sparql", target_classes=classes), dict(url_endpoint="http://fake/sparql", all_classes_mode=True),
               dict(raw_graph=nt, shape_map_raw="SPARQL 'select ?x where {?x ?p ?o}'@<http://l/L>"), dict(raw_graph=nt, all_classes_mode=True, inverse_paths=True)]:
        try:
            s = Shaper(instances_report_mode=MIXED_INSTANCES, **kw)
            a = s.shex_graph(string_output=True); b = s.shex_graph(string_output=True, output_format=SHACL_TURTLE)
            gb = rdflib.Graph(); gb.parse(data=b, format="turtle")
            from rdflib.compare import to_isomorphic
            out.append(hashlib.sha256(a.encode()).hexdigest()[:8] + ":" + to_isomorphic(gb).graph_digest().__str__()[:8])
        except Exception as e: out.append("EXC:" + type(e).__name__)
print(" ".join(out))
