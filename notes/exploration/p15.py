from probe import *
import rdflib, SPARQLWrapper
from SPARQLWrapper import SPARQLWrapper as SW
STATE = {"g": None, "log": []}
class FakeResult:
    def __init__(self, q): self.q = q
    def convert(self): return json.loads(STATE["g"].query(self.q).serialize(format="json"))
def fake_query(self):
    STATE["log"].append(self.queryString); return FakeResult(self.queryString)
SW.query = fake_query
rnd = random.Random(71); stats = collections.Counter(); ex = {}
def chk(name, ok, detail=None):
    stats[name + (":ok" if ok else ":DIFF")] += 1
    if not ok and name not in ex: ex[name] = detail
def simple(T):  # IRI nodes, plain string / integer literals only
    return [t for t in T if t[0][0] == "iri" and t[2][0] != "bnode"]
def runx(thr, **kw):
    kw.setdefault("instances_report_mode", MIXED_INSTANCES)
    signal.alarm(20)
    try: return proj(Shaper(**kw).shex_graph(string_output=True, acceptance_threshold=thr))
    except TO: return "HANG"
    except Exception as e: return "EXC:" + type(e).__name__ + ":" + str(e)[:80]
    finally: signal.alarm(0)
for i in range(150):
    T = simple(gen_graph(rnd)); classes = sorted({o[1] for s, p, o in T if p == RDF_TYPE})
    if not classes: continue
    nt = to_nt(T); g = rdflib.Graph(); g.parse(data=nt, format="nt"); STATE["g"] = g
    inv = rnd.random() < .4; thr = rnd.choice([0, .5])
    for mode, kw in [("tc", dict(target_classes=classes)), ("all", dict(all_classes_mode=True)),
                     ("sm", dict(shape_map_raw="\n".join("{FOCUS a <%s>}@<%s>" % (c, SH + c[len(EX):]) for c in classes)))]:
        loc = runx(thr, raw_graph=nt, input_format=NT, inverse_paths=inv, **kw)
        res = {}
        for cache in (True, False):
            STATE["log"].clear()
            res[cache] = runx(thr, url_endpoint="http://fake/sparql", disable_endpoint_cache=not cache, inverse_paths=inv, **kw), len(STATE["log"])
        if isinstance(loc, str) or isinstance(res[True][0], str) or isinstance(res[False][0], str):
            chk(mode + "_runs", False, (i, str(loc)[:60], str(res[True][0])[:80], str(res[False][0])[:80])); continue
        chk(mode + "_cache_same", cons(res[True][0], True) == cons(res[False][0], True) and facts(res[True][0]) == facts(res[False][0]))
        chk(mode + "_cache_fewer_queries", res[True][1] <= res[False][1], (i, res[True][1], res[False][1]))
        same = keys(res[True][0]) == keys(loc) and {s["label"]: s["n"] for s in res[True][0]} == {s["label"]: s["n"] for s in loc} and facts(res[True][0]) == facts(loc)
        chk(mode + "_endpoint_eq_local", same, (i, inv, thr, sorted(facts(res[True][0]) ^ facts(loc))[:3], sorted(keys(res[True][0]) ^ keys(loc))[:3], {s["label"]: s["n"] for s in res[True][0]}, {s["label"]: s["n"] for s in loc}))
print(sorted(stats.items()))
for k, v in ex.items(): print(k, v)
