import warnings, random, json, sys, time, signal; warnings.simplefilter("ignore")
from shexer.shaper import Shaper
from shexer.consts import NT, MIXED_INSTANCES
from shexc_proj import Proj
from drive import to_nt, okind, RDF_TYPE, EX, XSD, SH, TO
def gen_schema_graph(rnd):
    ncls = rnd.randint(1, 3); classes = [EX + "C%d" % i for i in range(ncls)]
    props = [EX + "p%d" % i for i in range(rnd.randint(1, 4))]
    inst = {}; nid = 0
    for c in classes:
        inst[c] = []
        for _ in range(rnd.randint(1, 4)):
            inst[c].append(("iri", EX + "n%d" % nid) if rnd.random() < .75 else ("bnode", "_:b%d" % nid)); nid += 1
    # homogeneous node kind per class is not required; but neighbours of one (class,prop) must be homogeneous in kind
    untyped_iri = [("iri", EX + "u%d" % i) for i in range(3)]; untyped_b = [("bnode", "_:u%d" % i) for i in range(3)]
    T = set()
    for c in classes:
        for n in inst[c]: T.add((n, RDF_TYPE, ("iri", c)))
        for p in props:
            r = rnd.random()
            if r < .3: rng = ("lit",)
            elif r < .45: rng = ("nodes", untyped_iri)
            elif r < .55: rng = ("nodes", untyped_b)
            else:
                c2 = rnd.choice(classes); kind = rnd.choice(["iri", "bnode"])
                cand = [x for x in inst[c2] if x[0] == kind]
                rng = ("nodes", cand) if cand else ("lit",)
            litmix = rnd.random() < .4
            for n in inst[c]:
                if rnd.random() < .25: continue
                k = rnd.choice([1, 1, 1, 2, 3])
                if rng[0] == "nodes":
                    for o in rnd.sample(rng[1], min(k, len(rng[1]))): T.add((n, p, o))
                if rng[0] == "lit" or (litmix and rnd.random() < .5):
                    for j in range(rnd.choice([1, 1, 2])):
                        T.add((n, p, ("lit", XSD + rnd.choice(["string", "string", "integer"]), "v%d" % rnd.randint(0, 5))))
    T = sorted(T, key=str); rnd.shuffle(T); return T
def main(seed, n, out):
    rnd = random.Random(seed); traces = []; crashes = 0
    signal.signal(signal.SIGALRM, lambda *a: (_ for _ in ()).throw(TO()))
    for i in range(n):
        T = gen_schema_graph(rnd)
        cfg = dict(thr=[0, 1], keepLess=True, discardUseless=rnd.random() < .5, allCompliant=True, allowOpt=rnd.random() < .6, disableExact=rnd.random() < .4)
        signal.alarm(5)
        try:
            s = Shaper(all_classes_mode=True, raw_graph=to_nt(T), input_format=NT, instances_report_mode=MIXED_INSTANCES, keep_less_specific=True,
                       discard_useless_constraints_with_positive_closure=cfg["discardUseless"], all_instances_are_compliant_mode=True,
                       allow_opt_cardinality=cfg["allowOpt"], disable_exact_cardinality=cfg["disableExact"])
            text = s.shex_graph(string_output=True); status = "ok"
        except TO: status = "hang"; text = ""
        except Exception as e: status = "raise:" + type(e).__name__; text = ""; crashes += 1
        signal.alarm(0)
        shapes = []
        if status == "ok":
            for sh in Proj(text).shapes:
                shapes.append({"cls": EX + sh["label"][len(SH):], "n": sh["n"], "tcs": [{**tc, "k": tc["k"].replace("@" + SH, "@" + EX), "ks": [k.replace("@" + SH, "@" + EX) for k in tc["ks"]],
                               "com": [[c[0].replace("@" + SH, "@" + EX), c[1], c[2]] for c in tc["com"]]} for tc in sh["tcs"]]})
        traces.append({"id": i, "status": status, "cfg": cfg, "graph": [[s[1], p, okind(o)[0], okind(o)[1]] for s, p, o in T], "shapes": shapes})
    json.dump(traces, open(out, "w")); print("cases", n, "crashes", crashes)
if __name__ == "__main__": main(int(sys.argv[1]), int(sys.argv[2]), sys.argv[3])
