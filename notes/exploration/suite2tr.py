import json, sys, re
sys.path.insert(0, "/tmp/proto6")
from shexc_proj import Proj
RDF_TYPE = "http://www.w3.org/1999/02/22-rdf-syntax-ns#type"
rows = [json.loads(l) for l in open("/tmp/plug/traces.ndjson")]
out = []; skipped = {}
def skip(why): skipped[why] = skipped.get(why, 0) + 1
for i, r in enumerate(rows):
    c = r["ctor"]
    if any(c.get(k) for k in ("shape_map_raw", "shape_map_file", "url_endpoint", "inverse_paths", "shape_qualifiers_mode", "wikidata_annotation", "examples_mode", "namespaces_to_ignore")) or c.get("instances_cap", -1) != -1:
        skip("feature"); continue
    if c.get("instantiation_property", RDF_TYPE) not in (RDF_TYPE, "rdf:type"): skip("instprop"); continue
    if c.get("disable_or_statements", True) is False: skip("or"); continue
    if not r["pass2"] or len(r["pass2"]) >= 3000: skip("triples"); continue
    for call in r["calls"]:
        if call["status"] != "ok" or "out" not in call or call["kw"].get("output_format", "ShEx") != "ShEx": skip("call"); continue
        thr = call["kw"].get("acceptance_threshold", 0)
        from fractions import Fraction
        f = Fraction(thr).limit_denominator(100)
        if float(f) != float(thr): skip("thr"); continue
        shns = c.get("shapes_namespace", "http://weso.es/shapes/")
        try: pj = Proj(call["out"])
        except Exception as e: skip("proj:" + str(e)[:40]); continue
        classes = sorted({t[3] for t in r["pass2"] if t[1] == RDF_TYPE})
        def local(u):
            u2 = u
            if "#" in u2 and not u2.endswith("#"): u2 = u2[u2.rfind("#") + 1:]
            if "/" in u2: u2 = u2[u2.rfind("/") + 1:] if not u2.endswith("/") else u2[u2[:-1].rfind("/") + 1:]
            return u2
        lab2cls = {shns + local(cl): cl for cl in classes}
        if len(lab2cls) != len(classes): skip("labelclash"); continue
        tc = c.get("target_classes")
        def fix(k):
            return "@" + lab2cls.get(k[1:], k[1:]) if k.startswith("@") else k
        shapes = []
        ok = True
        for sh in pj.shapes:
            if sh["label"] not in lab2cls: ok = False; break
            shapes.append({"cls": lab2cls[sh["label"]], "n": sh["n"], "tcs": [{**t, "k": fix(t["k"]), "ks": [fix(x) for x in t["ks"]], "com": [[fix(cm[0]), cm[1], cm[2]] for cm in t["com"]]} for t in sh["tcs"]]})
        if not ok: skip("label?"); continue
        cfg = dict(thr=[f.numerator, f.denominator], keepLess=c.get("keep_less_specific", True), discardUseless=c.get("discard_useless_constraints_with_positive_closure", True),
                   allCompliant=c.get("all_instances_are_compliant_mode", True), allowOpt=c.get("allow_opt_cardinality", True), disableExact=c.get("disable_exact_cardinality", False))
        out.append({"id": i, "status": "ok", "cfg": cfg, "graph": [[t[0], t[1], t[2], t[3]] for t in r["pass2"]], "shapes": shapes, "test": r["test"], "targets": tc or []})
json.dump(out, open("/tmp/proto6/tr_suite.json", "w"))
print("traces", len(out), "skipped", skipped)
