SPECIFICATION Spec
CONSTANTS
 Nodes = {"a","b"}
 TYPE = "type"
 Props = {"p"}
 MaxCalls = 3
INVARIANT Coherent
INVARIANT Cheaper
INVARIANT LocalSound
CHECK_DEADLOCK FALSE
