SPECIFICATION Spec
INVARIANT Report
POSTCONDITION Post
CHECK_DEADLOCK FALSE
