SPECIFICATION Spec
CONSTANTS
 Forms = {"pn", "lit", "typ", "num", "lang", "iri"}
INVARIANT Report
CHECK_DEADLOCK FALSE
