from probe import *
rnd = random.Random(12); stats = collections.Counter(); ex = {}
def chk(name, ok, detail=None):
    stats[name + (":ok" if ok else ":DIFF")] += 1
    if not ok and name not in ex: ex[name] = detail
def noB(T): return [t for t in T if t[0][0] != "bnode" and t[2][0] != "bnode"]
def fmap(sh): return {f[:5]: f[5] for f in facts(sh)}
for i in range(600):
    T = noB(gen_graph(rnd))
    if not T: continue
    b = dict(keep_less_specific=rnd.random()<.5, discard_useless_constraints_with_positive_closure=rnd.random()<.5, all_instances_are_compliant_mode=rnd.random()<.5)
    grid = [0, 1/3, .5, .51, 2/3, 1]
    outs = [proj(run(T, t, **b)) for t in grid]
    if any(isinstance(o, str) for o in outs): stats["crash"] += 1; continue
    for (t1, o1), (t2, o2) in itertools.combinations(zip(grid, outs), 2):
        m1, m2 = fmap(o1), fmap(o2)
        bad = {k: (m1[k], m2[k]) for k in m1.keys() & m2.keys() if m1[k] != m2[k]}
        chk("common_facts_equal", not bad, (i, b, t1, t2, bad))
    thr = rnd.choice(grid)
    d = proj(run(T, thr, **b)); v = proj(run(T, thr, inverse_paths=True, **b))
    if isinstance(v, str) or isinstance(d, str): stats["crash14"] += 1; continue
    R = [t for t in T if t[1] == RDF_TYPE] + [(o, p, s) for s, p, o in T if p != RDF_TYPE and o[0] in ("iri", "bnode")]
    r = proj(run(R, thr, **b))
    if isinstance(r, str): stats["crash14r"] += 1; continue
    inv_v = {(t[0], t[2], t[3], t[4], t[5]) for t in cons(v, with_fig=True) if t[1] and t[2] != RDF_TYPE}
    dir_r = {(t[0], t[2], t[3], t[4], t[5]) for t in cons(r, with_fig=True) if t[2] != RDF_TYPE}
    chk("c14_inverse_is_reverse", inv_v == dir_r, (i, b, thr, sorted(inv_v ^ dir_r)[:6]))
    fi = {(f[0], f[2], f[3], f[4], f[5]) for f in facts(v) if f[1] and f[2] != RDF_TYPE}; fr = {(f[0], f[2], f[3], f[4], f[5]) for f in facts(r) if f[2] != RDF_TYPE}
    chk("c14_facts", fi == fr, (i, sorted(fi ^ fr)[:6]))
    # are there inverse rdf:type constraints?
    if any(t[1] and t[2] == RDF_TYPE for t in cons(v)): stats["inverse_type_constraints_present"] += 1
print(sorted(stats.items()))
for k, v in ex.items(): print(k, v)
