"""Prototype ShExC projector: text -> abstract schema (dumb tokeniser; all judgement stays in TLA+)."""
import re
PLUS, STAR, OPT = 0, -1, -2
_FIG = re.compile(r'#\s*([0-9.eE+-]+)\s*%(?:\s*\((\d+) instances?\))?\.?')
_FIGABS = re.compile(r'#\s*(\d+) instances?\.')
_COMMENT = re.compile(r'^#\s*(.*?)\s*obj:\s*(.+?)\.\s*Cardinality:\s*(\S+)\s*$')
_HEAD_N = re.compile(r'#\s*(\d+) instances?\.')
def card_of(tok):
    if tok in ("", None): return 1
    if tok == "+": return PLUS
    if tok == "*": return STAR
    if tok == "?": return OPT
    m = re.fullmatch(r'\{(\d+)\}', tok)
    if m: return int(m.group(1))
    raise ValueError("card? " + repr(tok))
def split_comment(line):
    depth = 0
    for i, ch in enumerate(line):
        if ch == "<": depth += 1
        elif ch == ">": depth = max(0, depth - 1)
        elif ch == "#" and depth == 0: return line[:i], line[i + 1:]
    return line, ""
class Proj:
    def __init__(self, text):
        self.prefixes = {}
        self.shapes = []
        self._parse(text)
    def expand(self, tok):
        tok = tok.strip()
        if tok.startswith("<") and tok.endswith(">"): return tok[1:-1]
        if ":" in tok:
            p, l = tok.split(":", 1)
            if p in self.prefixes: return self.prefixes[p] + l
        raise ValueError("cannot expand " + repr(tok))
    def val(self, tok):
        tok = tok.strip()
        if tok in ("IRI", "BNode", "NONLITERAL"): return tok
        if tok.startswith("@"): return "@" + self.expand(tok[1:])
        if tok.startswith("[") and tok.endswith("]"): return self.expand(tok[1:-1])
        return self.expand(tok)
    def fig(self, s, n_inst):
        """returns abs count or -1 when the text carries no figure"""
        m = _FIG.search(s)
        if m:
            ratio = float(m.group(1))
            if m.group(2) is not None:
                a = int(m.group(2))
                exact = (str(float(a) / n_inst * 100) == m.group(1)) if n_inst else False
                return a if exact else -7   # -7: printed ratio inconsistent with printed count
            if n_inst is None: return -1
            a = round(ratio * n_inst / 100)
            return a if str(float(a) / n_inst * 100) == m.group(1) else -7
        m = _FIGABS.search(s)
        if m: return int(m.group(1))
        return -1
    def _parse(self, text):
        cur = None; last_tc = None; pending_head = None
        for raw in text.split("\n"):
            line = raw.rstrip()
            if not line.strip(): continue
            if line.startswith("PREFIX"):
                m = re.match(r'PREFIX\s+([^:\s]*):\s*<([^>]*)>', line); self.prefixes[m.group(1)] = m.group(2); continue
            if line.strip() == "{": 
                cur = pending_head; self.shapes.append(cur); continue
            if line.startswith("}"):
                cur = None; last_tc = None; continue
            if cur is None:
                head = split_comment(line)[0].strip()
                label = head.split()[0]
                m = _HEAD_N.search(line)
                pending_head = {"label": self.expand(label), "n": int(m.group(1)) if m else -1, "tcs": []}
                continue
            body = line.strip()
            if body.startswith("//"): continue
            if body.startswith("#"):
                m = _COMMENT.match(body)
                if m and last_tc is not None:
                    last_tc["com"].append([self.val(m.group(2)), card_of(m.group(3)), self.fig(body, cur["n"] if cur["n"] >= 0 else None)])
                continue
            code, cmt = split_comment(body)
            toks = code.replace(";", " ").split()
            inv = False
            if toks[0] == "^": inv = True; toks = toks[1:]
            pred = self.expand(toks[0]); rest = toks[1:]
            card = 1
            if rest and re.fullmatch(r'[+*?]|\{\d+\}', rest[-1]): card = card_of(rest[-1]); rest = rest[:-1]
            vals = [self.val(t) for t in rest if t != "OR"]
            last_tc = {"inv": inv, "p": pred, "k": vals[0] if len(vals) == 1 else "", "ks": vals if len(vals) > 1 else [],
                       "card": card, "n": self.fig("#" + cmt, cur["n"] if cur["n"] >= 0 else None) if cmt else -1, "com": []}
            cur["tcs"].append(last_tc)
