---- MODULE Ttl ----
EXTENDS Integers, Sequences, FiniteSets, TLC, SequencesExt
CONSTANTS Forms
VARIABLES form, breaks, pc
vars == <<form, breaks, pc>>
\* ---------- document: S P O1 ; P O2 , O3 . S P O4 .   (13 tokens)
Obj(f) == CASE f = "pn"   -> <<"e",":","b">>
            [] f = "lit"  -> <<"\"","x"," ","y","\"">>
            [] f = "typ"  -> <<"\"","v","\"","^","^","e",":","t">>
            [] f = "num"  -> <<"5">>
            [] f = "lang" -> <<"\"","v","\"","@","e","n">>
            [] f = "iri"  -> <<"<","u",":","b",">">>
SUBJ == <<"e",":","a">>   PRED == <<"e",":","p">>   A == <<"a">>
DOT == <<".">>  SEMI == <<";">>  COMMA == <<",">>
Tokens == << SUBJ, PRED, Obj(form), SEMI, A, Obj(form), COMMA, Obj(form), DOT, SUBJ, PRED, Obj(form), DOT >>
NT == Len(Tokens)
Expected == << <<SUBJ, PRED, Obj(form)>>, <<SUBJ, A, Obj(form)>>, <<SUBJ, A, Obj(form)>>, <<SUBJ, PRED, Obj(form)>> >>
\* breaks: set of token indices after which a line break is placed (the last token always ends the document)
RECURSIVE BuildLines(_, _, _)
BuildLines(i, cur, acc) ==
  IF i > NT THEN (IF cur = <<>> THEN acc ELSE Append(acc, cur))
  ELSE LET cur2 == IF cur = <<>> THEN Tokens[i] ELSE cur \o <<" ">> \o Tokens[i]
       IN IF i \in breaks THEN BuildLines(i+1, <<>>, Append(acc, cur2)) ELSE BuildLines(i+1, cur2, acc)
Lines == BuildLines(1, <<>>, <<>>)
\* ---------- python helpers (0-based)
At(s, i) == IF i >= 0 /\ i < Len(s) THEN s[i+1] ELSE "IndexError"
Slice(s, a, b) == IF a >= b THEN <<>> ELSE SubSeq(s, a+1, IF b > Len(s) THEN Len(s) ELSE b)
FindCh(s, ch, start) == LET c == {i \in start..(Len(s)-1) : s[i+1] = ch} IN IF c = {} THEN -1 ELSE CHOOSE i \in c : \A j \in c : i <= j
\* ---------- transliteration of BigTtlTriplesYielder._next_line_token & co.  result: [tok, next, err]
FindNextBlank(s, start) == LET p == FindCh(s, " ", start) IN IF p = -1 THEN Len(s) - 1 ELSE p
QuotedEnding(s, start) ==   \* returns [end, err]
  LET q == FindCh(s, "\"", start + 1) IN
  IF q = -1 THEN [end |-> 0, err |-> "ValueError"]
  ELSE IF q + 1 > Len(s) THEN [end |-> q, err |-> ""]
  ELSE IF q + 1 = Len(s) THEN [end |-> 0, err |-> "IndexError"]           \* target_str[next_quotes + 1]
  ELSE IF At(s, q + 1) = " " THEN [end |-> q, err |-> ""]
  ELSE IF At(s, q + 1) = "^" THEN [end |-> FindNextBlank(s, q) - 1, err |-> ""]
  ELSE [end |-> 0, err |-> "ValueError"]
RECURSIVE SkipBlanks(_, _)
SkipBlanks(s, i) == IF i < Len(s) /\ At(s, i) = " " THEN SkipBlanks(s, i + 1) ELSE i
NextTok(s, start0) ==
  LET start == SkipBlanks(s, start0) IN
  IF start >= Len(s) THEN [tok |-> <<>>, next |-> -1, err |-> ""]
  ELSE IF At(s, start) \in {",", ";", "."} THEN [tok |-> <<At(s, start)>>, next |-> start + 1, err |-> ""]
  ELSE IF At(s, start) = "<" THEN LET e == FindCh(s, ">", start) IN [tok |-> Slice(s, start, e + 1), next |-> e + 1, err |-> ""]
  ELSE IF At(s, start) = "\"" THEN LET r == QuotedEnding(s, start) IN
        IF r.err # "" THEN [tok |-> <<>>, next |-> -1, err |-> r.err] ELSE [tok |-> Slice(s, start, r.end + 1), next |-> r.end + 1, err |-> ""]
  ELSE LET e == FindNextBlank(s, start) IN [tok |-> Slice(s, start, e), next |-> e + 1, err |-> ""]
\* ---------- reader state machine: [st, s, p, o, out, err]
WS == 0  WP == 1  WO == 2  NW == 4
Step(state, tok) ==
  IF tok = COMMA THEN [state EXCEPT !.out = Append(@, <<state.s, state.p, state.o>>), !.st = WO]
  ELSE IF tok = SEMI THEN [state EXCEPT !.out = Append(@, <<state.s, state.p, state.o>>), !.st = WP]
  ELSE IF tok = DOT THEN [state EXCEPT !.out = Append(@, <<state.s, state.p, state.o>>), !.st = WS]
  ELSE IF state.st = WS THEN [state EXCEPT !.s = tok, !.st = WP]
  ELSE IF state.st = WP THEN [state EXCEPT !.p = tok, !.st = WO]
  ELSE IF state.st = WO THEN [state EXCEPT !.o = tok, !.st = NW]
  ELSE [state EXCEPT !.err = "ValueError:unexpected token"]
RECURSIVE ProcLine(_, _, _, _)
ProcLine(line, idx, state, fuel) ==
  IF state.err # "" \/ fuel = 0 THEN state
  ELSE LET r == NextTok(line, idx) IN
       IF r.err # "" THEN [state EXCEPT !.err = r.err]
       ELSE IF r.next = -1 THEN state
       ELSE ProcLine(line, r.next, Step(state, r.tok), fuel - 1)
RECURSIVE ProcDoc(_, _, _)
ProcDoc(lines, i, state) == IF i > Len(lines) \/ state.err # "" THEN state ELSE ProcDoc(lines, i + 1, ProcLine(lines[i], 0, state, 40))
Init0 == [st |-> WS, s |-> <<>>, p |-> <<>>, o |-> <<>>, out |-> <<>>, err |-> ""]
Result == ProcDoc(Lines, 1, Init0)
ImplOK == Result.err = "" /\ Result.out = Expected
Init == form \in Forms /\ breaks \in SUBSET (1..(NT-1)) /\ pc = "go"
Next == UNCHANGED vars
Spec == Init /\ [][Next]_vars
Report == ~ImplOK => PrintT(<<"FAIL", form, breaks, Result.err, Len(Result.out)>>)
Count == TLCSet(3, TLCGet(3) + (IF ImplOK THEN 0 ELSE 1))
====
