---- MODULE Nt ----
EXTENDS Integers, Sequences, FiniteSets, TLC, SequencesExt
CONSTANTS Alphabet, L, MARK   \* MARK: the char the implementation uses to detect language tags ("%" today)
VARIABLES content, suffix, glued, pc
vars == <<content, suffix, glued, pc>>
\* ---- symbols expand to characters
Expand(sym) == CASE sym = "EQ" -> <<"\\", "\"">>        \* escaped quote
                 [] sym = "EB" -> <<"\\", "\\">>        \* escaped backslash
                 [] sym = "HH" -> <<"^", "^">>
                 [] sym = "SD" -> <<" ", ".">>
                 [] sym = "XS" -> <<"x","s","d",":">>
                 [] OTHER -> <<sym>>
Flat(seq) == FoldLeft(LAMBDA acc, s : acc \o Expand(s), <<>>, seq)
SuffixChars(sf) == CASE sf = "none" -> <<>>
                     [] sf = "lang" -> <<"@","e","n">>
                     [] sf = "dt"   -> <<"^","^","<","u",":","d",">">>
Lit == <<"\"">> \o Flat(content) \o <<"\"">> \o SuffixChars(suffix)
Line == <<"<","u",":","s",">"," ","<","u",":","p",">"," ">> \o Lit \o (IF glued THEN <<".">> ELSE <<" ",".">>)
ExpectedType == CASE suffix = "none" -> "xsd:string" [] suffix = "lang" -> "rdf:langString" [] suffix = "dt" -> "u:d"
\* ---- Python string helpers, 0-based indices like the code; -1 = not found
At(s, i) == IF i >= 0 /\ i < Len(s) THEN s[i+1] ELSE IF i < 0 /\ -i <= Len(s) THEN s[Len(s)+i+1] ELSE "IndexError"
Slice(s, a, b) == IF a >= b THEN <<>> ELSE SubSeq(s, a+1, b)         \* s[a:b], 0 <= a
From(s, a) == Slice(s, a, Len(s))
Matches(s, pat, i) == i + Len(pat) <= Len(s) /\ \A j \in 1..Len(pat) : s[i+j] = pat[j]
Find(s, pat, start) == LET c == {i \in start..(Len(s)-Len(pat)) : Matches(s, pat, i)} IN IF c = {} THEN -1 ELSE CHOOSE i \in c : \A j \in c : i <= j
RFind(s, pat) == LET c == {i \in 0..(Len(s)-Len(pat)) : Matches(s, pat, i)} IN IF c = {} THEN -1 ELSE CHOOSE i \in c : \A j \in c : i >= j
HasSub(s, pat) == Find(s, pat, 0) # -1
Q == <<"\"">>
\* ---- transliteration of NtTriplesYielder._look_for_last_index_of_literal_token (returns last index in target_str)
ArrobaAfterLastQuotes(s) == RFind(s, <<MARK>>) > RFind(s, Q)
RECURSIVE QuoteLoop(_, _, _)
QuoteLoop(sub, idx, fuel) ==
  IF fuel = 0 THEN -99
  ELSE LET f == Find(From(sub, idx + 1), Q, 0)
           i2 == f + idx + 1
       IN IF At(sub, i2 - 1) # "\\" THEN i2
          ELSE IF At(sub, i2 - 2) = "\\" THEN i2
          ELSE QuoteLoop(sub, i2, fuel - 1)
LitLastIndex(str, first) ==
  LET sub == From(str, first) IN
  IF ArrobaAfterLastQuotes(sub) THEN Find(From(sub, RFind(sub, <<"@">>)), <<" ">>, 0) - 1 + RFind(str, <<"@">>)
  ELSE IF ~HasSub(sub, <<"^","^">>) THEN QuoteLoop(sub, 1, Len(sub) + 2) + (Len(str) - Len(sub))
  ELSE Find(From(sub, Find(sub, <<"^","^">>, 0)), <<" ">>, 0) - 1 + Find(str, <<"^","^">>, 0)
\* decide_literal_type on the token
DecideType(tok) ==
  IF ArrobaAfterLastQuotes(tok) THEN "rdf:langString"
  ELSE IF ~HasSub(tok, <<"\"","^","^">>) THEN "xsd:string"
  ELSE IF HasSub(tok, <<"x","s","d",":">>) THEN "xsd-prefixed"
  ELSE IF At(tok, Len(tok)-1) = ">" THEN "u:d" ELSE "RuntimeError"
First == 12   \* index of the opening quote in Line
LastIdx == LitLastIndex(Line, First)
Token == IF LastIdx + 1 <= First THEN <<>> ELSE Slice(Line, First, LastIdx + 1)
ImplOK == /\ LastIdx >= First                      \* otherwise the scan moves backwards: non-termination
          /\ Token = Lit
          /\ DecideType(Token) = ExpectedType
Init == content = <<>> /\ suffix \in {"none","lang","dt"} /\ glued \in BOOLEAN /\ pc = "gen"
Grow == pc = "gen" /\ Len(content) < L /\ \E a \in Alphabet : content' = Append(content, a) /\ UNCHANGED <<suffix, glued, pc>>
Stop == pc = "gen" /\ pc' = "done" /\ UNCHANGED <<content, suffix, glued>>
Next == Grow \/ Stop
Spec == Init /\ [][Next]_vars
Conform == pc = "done" => ImplOK
\* to enumerate all failures rather than stop at the first: print them
Report == (pc = "done" /\ ~ImplOK) => PrintT(<<"FAIL", content, suffix, glued, LastIdx, Token>>)
====
