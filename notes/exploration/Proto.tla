---- MODULE Proto ----
EXTENDS Naturals, Sequences, FiniteSets, TLC, SequencesExt, FiniteSetsExt, Functions
\* triples: <<s, p, o>>; o = <<kind, val>> kind in {"IRI","BNode", datatype}
CONSTANTS U, K, TYPE
VARIABLES last, doc, pc, pos, inst, feat, prof
vars == <<last, doc, pc, pos, inst, feat, prof>>
M == Len(U)
S(t) == t[1]
P(t) == t[2]
O(t) == t[3]
G == ToSet(doc)
Nodes == {S(t) : t \in ToSet(U)} \cup {O(t)[2] : t \in {x \in ToSet(U) : O(x)[1] \in {"IRI","BNode"}}}
Classes == {O(t)[2] : t \in {x \in ToSet(U) : P(x) = TYPE}}
Props == {P(t) : t \in ToSet(U)}
\* ---------- declarative reference
DInst(c) == {S(t) : t \in {x \in G : P(x) = TYPE /\ O(x)[2] = c}}
DIsInst(n) == \E t \in G : P(t) = TYPE /\ S(t) = n
DClassesOf(n) == {O(t)[2] : t \in {x \in G : P(x) = TYPE /\ S(x) = n}}
KindsOf(t) == IF P(t) = TYPE THEN {O(t)[2]}
              ELSE {O(t)[1]} \cup (IF O(t)[1] \in {"IRI","BNode"} THEN {"@" \o c : c \in DClassesOf(O(t)[2])} ELSE {})
AllKinds == UNION {KindsOf(t) : t \in G}
DN(n, p, k) == Cardinality({t \in G : S(t) = n /\ P(t) = p /\ k \in KindsOf(t)})
DCount(c, p, k, card) == Cardinality({n \in DInst(c) : IF card = 0 THEN DN(n,p,k) >= 1 ELSE DN(n,p,k) = card})
\* ---------- operational
Init == last = 0 /\ doc = <<>> /\ pc = "gen" /\ pos = 1 /\ inst = <<>> /\ feat = <<>> /\ prof = <<>>
Add == /\ pc = "gen" /\ Len(doc) < K
       /\ \E i \in (last+1)..M : doc' = Append(doc, U[i]) /\ last' = i
       /\ UNCHANGED <<pc, pos, inst, feat, prof>>
Start == /\ pc = "gen" /\ pc' = "track" /\ pos' = 1
         /\ inst' = [n \in {} |-> <<>>]
         /\ UNCHANGED <<last, doc, feat, prof>>
Track == /\ pc = "track"
         /\ IF pos > Len(doc) THEN /\ pc' = "feat" /\ pos' = 1
                                   /\ feat' = [n \in DOMAIN inst |-> [key \in {} |-> 0]]
                                   /\ UNCHANGED inst
            ELSE LET t == doc[pos] IN
                 /\ pos' = pos + 1
                 /\ inst' = IF P(t) = TYPE
                            THEN IF S(t) \in DOMAIN inst THEN [inst EXCEPT ![S(t)] = Append(@, O(t)[2])]
                                 ELSE inst @@ (S(t) :> <<O(t)[2]>>)
                            ELSE inst
                 /\ UNCHANGED <<pc, feat>>
         /\ UNCHANGED <<last, doc, prof>>
OKinds(t) == IF P(t) = TYPE THEN {O(t)[2]}
             ELSE {O(t)[1]} \cup (IF O(t)[1] \in {"IRI","BNode"} /\ O(t)[2] \in DOMAIN inst
                                   THEN {"@" \o c : c \in ToSet(inst[O(t)[2]])} ELSE {})
Bump(f, keys) == [k \in DOMAIN f \cup keys |-> (IF k \in DOMAIN f THEN f[k] ELSE 0) + (IF k \in keys THEN 1 ELSE 0)]
Feat == /\ pc = "feat"
        /\ IF pos > Len(doc) THEN pc' = "prof" /\ pos' = 1 /\ UNCHANGED feat
           ELSE LET t == doc[pos] IN
                /\ pos' = pos + 1
                /\ feat' = IF S(t) \in DOMAIN inst
                           THEN [feat EXCEPT ![S(t)] = Bump(@, {<<P(t), k>> : k \in OKinds(t)})]
                           ELSE feat
                /\ UNCHANGED pc
        /\ UNCHANGED <<last, doc, inst, prof>>
\* class profile: function <<c,p,k,card>> -> count ; card 0 = '+'
ProfKeys == {<<c, key[1], key[2], card>> : c \in Classes, key \in UNION {DOMAIN feat[n] : n \in DOMAIN feat}, card \in 0..K}
Prof == /\ pc = "prof"
        /\ prof' = [q \in {x \in ProfKeys :
                        \E n \in DOMAIN feat : x[1] \in ToSet(inst[n]) /\ <<x[2],x[3]>> \in DOMAIN feat[n]
                                               /\ (IF x[2] = TYPE THEN x[4] = 1 ELSE (x[4] = 0 \/ feat[n][<<x[2],x[3]>>] = x[4]))}
                    |-> Cardinality({n \in DOMAIN feat : q[1] \in ToSet(inst[n]) /\ <<q[2],q[3]>> \in DOMAIN feat[n]
                                               /\ (IF q[2] = TYPE THEN q[4] = 1 ELSE (q[4] = 0 \/ feat[n][<<q[2],q[3]>>] = q[4]))})]
        /\ pc' = "done"
        /\ UNCHANGED <<last, doc, pos, inst, feat>>
Next == Add \/ Start \/ Track \/ Feat \/ Prof
Spec == Init /\ [][Next]_vars
\* ---------- properties
CountsExact == pc = "done" =>
    /\ \A q \in DOMAIN prof : q[2] # TYPE => prof[q] = DCount(q[1], q[2], q[3], q[4])
    /\ \A c \in Classes, p \in Props \ {TYPE}, k \in AllKinds, card \in 0..K :
         DCount(c,p,k,card) > 0 => (<<c,p,k,card>> \in DOMAIN prof)
InstExact == pc \in {"feat","prof","done"} => \A c \in Classes : {n \in DOMAIN inst : c \in ToSet(inst[n])} = DInst(c)
====
