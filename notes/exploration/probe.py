import warnings, random, json, sys, signal, itertools, collections; warnings.simplefilter("ignore")
from shexer.shaper import Shaper
from shexer.consts import *
from shexc_proj import Proj
from drive import gen_graph, to_nt, RDF_TYPE, EX, XSD, SH
class TO(Exception): pass
def _h(*a): raise TO()
signal.signal(signal.SIGALRM, _h)
def run(T, thr=0, fmt=SHEXC, **kw):
    kw.setdefault("all_classes_mode", True); kw.setdefault("instances_report_mode", MIXED_INSTANCES)
    signal.alarm(5)
    try:
        s = Shaper(raw_graph=to_nt(T), input_format=NT, **kw)
        return s.shex_graph(string_output=True, acceptance_threshold=thr, output_format=fmt)
    except TO: return "HANG"
    except Exception as e: return "EXC:" + type(e).__name__
    finally: signal.alarm(0)
def proj(text):
    if text.startswith(("EXC", "HANG")): return text
    return Proj(text).shapes
def cons(shapes, with_fig=False, with_card=True):
    """set of (label, inv, pred, kind(s), card[, n]) constraints"""
    if isinstance(shapes, str): return shapes
    out = set()
    for sh in shapes:
        for tc in sh["tcs"]:
            k = tc["k"] if not tc["ks"] else "|".join(sorted(tc["ks"]))
            out.add((sh["label"], tc["inv"], tc["p"], k) + ((tc["card"],) if with_card else ()) + ((tc["n"],) if with_fig else ()))
    return out
def keys(shapes):
    if isinstance(shapes, str): return shapes
    def vc(p, k): return k if p == RDF_TYPE else ("nonliteral" if (k in ("IRI", "BNode", "NONLITERAL") or k.startswith("@") or k == "") else k)
    return {(sh["label"], tc["inv"], tc["p"], vc(tc["p"], tc["k"])) for sh in shapes for tc in sh["tcs"]}
def facts(shapes):
    if isinstance(shapes, str): return shapes
    out = set()
    for sh in shapes:
        for tc in sh["tcs"]:
            if tc["n"] != -1 and not tc["ks"]: out.add((sh["label"], tc["inv"], tc["p"], tc["k"], tc["card"], tc["n"]))
            for c in tc["com"]: out.add((sh["label"], tc["inv"], tc["p"], c[0], c[1], c[2]))
    return out
