from probe import *
rnd = random.Random(21); stats = collections.Counter(); ex = {}
def chk(name, ok, detail=None):
    stats[name + (":ok" if ok else ":DIFF")] += 1
    if not ok and name not in ex: ex[name] = detail
def relabel(T, rnd):
    m = {}
    def f(t):
        if t[0] != "bnode": return t
        if t[1] not in m: m[t[1]] = "_:z%d" % rnd.randint(0, 10**6)
        return ("bnode", m[t[1]])
    return [(f(s), p, f(o)) for s, p, o in T]
for i in range(500):
    T = gen_graph(rnd)
    b = dict(keep_less_specific=rnd.random()<.6, discard_useless_constraints_with_positive_closure=rnd.random()<.5, all_instances_are_compliant_mode=rnd.random()<.5, inverse_paths=rnd.random()<.3)
    thr = rnd.choice([0, 0, .5, 1])
    ref = proj(run(T, thr, **b))
    if isinstance(ref, str): stats["crash"] += 1; continue
    for j in range(3):
        T2 = T[:]; rnd.shuffle(T2)
        if j == 2: T2 = relabel(T2, rnd)
        o = proj(run(T2, thr, **b))
        if isinstance(o, str): chk("no_crash_after_perm", False, (i, o)); continue
        chk("labels", {s["label"]: s["n"] for s in o} == {s["label"]: s["n"] for s in ref})
        chk("keys", keys(o) == keys(ref))
        chk("evidence", facts(o) == facts(ref), (i, b, thr, sorted(facts(o) ^ facts(ref))[:4]))
        chk("constraints", cons(o) == cons(ref), (i, b, thr, sorted(cons(o) ^ cons(ref))[:4]))
print(sorted(stats.items()))
for k, v in ex.items(): print(k, v)
