---- MODULE TraceShx ----
EXTENDS Integers, Sequences, FiniteSets, TLC, Json, IOUtils, SequencesExt, FiniteSetsExt
Traces == JsonDeserialize(IOEnv.TRACE_FILE)
ASSUME TLCSet(2, {})
VARIABLES tid
PLUS == 0  STAR == -1  OPT == -2
TYPE == "http://www.w3.org/1999/02/22-rdf-syntax-ns#type"
Tr == Traces[tid]
cfg == Tr.cfg
G == {<<t[1], t[2], <<t[3], t[4]>>>> : t \in ToSet(Tr.graph)}
S(t) == t[1]  P(t) == t[2]  O(t) == t[3]
IsNode(o) == o[1] \in {"IRI","BNode"}
Classes == {O(t)[2] : t \in {x \in G : P(x) = TYPE}}
Props == {P(t) : t \in G}
Inst(c) == {S(t) : t \in {x \in G : P(x) = TYPE /\ O(x)[2] = c}}
ClassesOf(n) == {O(t)[2] : t \in {x \in G : P(x) = TYPE /\ S(x) = n}}
Sh(c) == "@" \o c
IsShape(k) == Len(k) > 0 /\ SubSeq(k,1,1) = "@"
KindsOf(t) == IF P(t) = TYPE THEN {O(t)[2]}
              ELSE {O(t)[1]} \cup (IF IsNode(O(t)) THEN {Sh(c) : c \in ClassesOf(O(t)[2])} ELSE {})
KMatch(t, k) == IF k = "NONLITERAL" THEN IsNode(O(t)) /\ P(t) # TYPE ELSE k \in KindsOf(t)
DN(n, p, k) == Cardinality({t \in G : S(t) = n /\ P(t) = p /\ KMatch(t, k)})
DCount(c, p, k, card) == Cardinality({n \in Inst(c) : IF card = PLUS THEN DN(n,p,k) >= 1 ELSE DN(n,p,k) = card})
CC(c) == Cardinality(Inst(c))
Datatypes == {O(t)[1] : t \in {x \in G : ~IsNode(O(x))}}
VC(p, k) == IF p = TYPE THEN k ELSE IF k \in {"IRI","BNode","NONLITERAL"} \/ IsShape(k) THEN "nonliteral" ELSE k
FreqOK(n, N, thr) == n * thr[2] >= thr[1] * N
HasVC(n, p, vc) == \E t \in G : S(t) = n /\ P(t) = p /\
                     (IF p = TYPE THEN O(t)[2] = vc ELSE IF vc = "nonliteral" THEN IsNode(O(t)) ELSE O(t)[1] = vc)
DKeys(c, thr) == {key \in {<<p, vc>> : p \in Props, vc \in {"nonliteral"} \cup Datatypes \cup Classes} :
                    /\ \E n \in Inst(c) : HasVC(n, key[1], key[2])
                    /\ FreqOK(Cardinality({n \in Inst(c) : HasVC(n, key[1], key[2])}), CC(c), thr)}
\* ---- observed output
Shapes == ToSet(Tr.shapes)
ShapeOfClass(c) == CHOOSE s \in Shapes : s.cls = c
Tcs(sh) == ToSet(sh.tcs)
KS(tc) == ToSet(tc.ks)
Fact3(f) == <<f[1], f[2], f[3]>>
\* ---- C02 (shape set; keys) — mixed IRI/BNode keys excluded in this prototype (known deviation)
Mixed(cl, p) == (\E n \in Inst(cl) : DN(n, p, "IRI") > 0) /\ (\E n \in Inst(cl) : DN(n, p, "BNode") > 0)
KeyOf(tc) == <<tc.p, VC(tc.p, IF tc.ks # <<>> THEN "NONLITERAL" ELSE tc.k)>>
C02shapes == Tr.status = "ok" => {s.cls : s \in Shapes} = {c \in Classes : Inst(c) # {}}
C02keys == Tr.status = "ok" => \A sh \in Shapes :
     /\ {k \in {KeyOf(tc) : tc \in Tcs(sh)} : ~Mixed(sh.cls, k[1])} = {k \in DKeys(sh.cls, cfg.thr) : ~Mixed(sh.cls, k[1])}
     /\ \A a, b \in Tcs(sh) : KeyOf(a) = KeyOf(b) => a = b
\* ---- C01
BothKinds(cl, p) == \E n \in Inst(cl) : DN(n, p, "IRI") > 0 /\ DN(n, p, "BNode") > 0
FigOK(cl, p, k, card, n) == n = DCount(cl, p, k, card)
FactOK(cl, p, k, card, n) == (k = "NONLITERAL" /\ BothKinds(cl, p)) \/ FigOK(cl, p, k, card, n)
C01 == Tr.status = "ok" => \A sh \in Shapes :
     /\ sh.n = CC(sh.cls)
     /\ \A tc \in Tcs(sh) :
          /\ \A f \in ToSet(tc.com) : f[3] # -1 => FactOK(sh.cls, tc.p, f[1], f[2], f[3])
          /\ (tc.n # -1 /\ tc.ks = <<>>) =>
                 \/ FactOK(sh.cls, tc.p, tc.k, tc.card, tc.n)
                 \/ (cfg.disableExact /\ tc.card = PLUS /\ \E c \in 2..8 : FigOK(sh.cls, tc.p, tc.k, c, tc.n))
\* ---- C03 (ShEx semantics, gfp) in the strict domain
CardOK(cnt, card) == CASE card = PLUS -> cnt >= 1 [] card = STAR -> TRUE [] card = OPT -> cnt <= 1 [] OTHER -> cnt = card
NodeIds == {S(t) : t \in G} \cup {O(t)[2] : t \in {x \in G : IsNode(O(x)) /\ P(x) # TYPE}}
ClassOfShape(k) == SubSeq(k, 2, Len(k))
MatchK(t, k, T) == CASE k = "IRI" -> O(t)[1] = "IRI"
                     [] k = "BNode" -> O(t)[1] = "BNode"
                     [] k = "NONLITERAL" -> IsNode(O(t))
                     [] IsShape(k) -> IsNode(O(t)) /\ <<O(t)[2], ClassOfShape(k)>> \in T
                     [] OTHER -> O(t)[1] = k
MatchS(t, tc, T) == IF tc.p = TYPE THEN O(t)[2] = tc.k
                    ELSE IF tc.ks # <<>> THEN \E k \in KS(tc) : MatchK(t, k, T) ELSE MatchK(t, tc.k, T)
LocalOK(n, cl, T) == LET ss == Tcs(ShapeOfClass(cl)) IN
   /\ \A t \in {x \in G : S(x) = n /\ P(x) \in {tc.p : tc \in ss}} : \E tc \in ss : tc.p = P(t) /\ MatchS(t, tc, T)
   /\ \A tc \in ss : CardOK(Cardinality({t \in G : S(t) = n /\ P(t) = tc.p /\ MatchS(t, tc, T)}), tc.card)
RECURSIVE Gfp(_)
Gfp(T) == LET T2 == {x \in T : LocalOK(x[1], x[2], T)} IN IF T2 = T THEN T ELSE Gfp(T2)
Typing == Gfp(NodeIds \X {s.cls : s \in Shapes})
NLObjs(cl, p) == {O(t) : t \in {x \in G : S(x) \in Inst(cl) /\ P(x) = p /\ IsNode(O(x))}}
SchemaConsistent == \A cl \in Classes, p \in Props \ {TYPE} :
    LET os == NLObjs(cl, p) IN
      /\ Cardinality({o[1] : o \in os}) <= 1
      /\ \/ \A o \in os : ClassesOf(o[2]) = {}
         \/ \E c2 \in Classes : \A o \in os : ClassesOf(o[2]) = {c2}
Strict == Tr.status = "ok" /\ cfg.allCompliant /\ cfg.thr[1] = 0 /\ cfg.keepLess /\ SchemaConsistent
C03 == Strict => \A sh \in Shapes : \A n \in Inst(sh.cls) : <<n, sh.cls>> \in Typing
C04 == Tr.status = "ok"
\* ---- batch plumbing: one state per trace, report every failing (tid, clause)
Verdict == {c \in {"C01","C02shapes","C02keys","C03","C04"} :
              ~ CASE c = "C01" -> C01 [] c = "C02shapes" -> C02shapes [] c = "C02keys" -> C02keys [] c = "C03" -> C03 [] c = "C04" -> C04}
Init == tid \in 1..Len(Traces)
Next == UNCHANGED tid
Spec == Init /\ [][Next]_tid
Report == /\ (Verdict # {} => PrintT(<<"VERDICT", Tr.id, Verdict>>))
          /\ (Strict => PrintT(<<"STRICT", Tr.id>>))
          /\ TLCSet(2, TLCGet(2) \cup {tid})
Post == Cardinality(TLCGet(2)) = Len(Traces)
====
