---- MODULE Shx ----
EXTENDS Integers, Sequences, FiniteSets, TLC, SequencesExt, FiniteSetsExt, Functions
CONSTANTS U, K, TYPE, Cfgs
VARIABLES last, doc, pc, cfg, out
vars == <<last, doc, pc, cfg, out>>
PLUS == 0  STAR == -1  OPT == -2
M == Len(U)
S(t) == t[1]  P(t) == t[2]  O(t) == t[3]
G == ToSet(doc)
IsNode(o) == o[1] \in {"IRI","BNode"}
Classes == {O(t)[2] : t \in {x \in ToSet(U) : P(x) = TYPE}}
Props == {P(t) : t \in ToSet(U)}
\* ------------------------------------------------------------------ declarative
Inst(c) == {S(t) : t \in {x \in G : P(x) = TYPE /\ O(x)[2] = c}}
ClassesOf(n) == {O(t)[2] : t \in {x \in G : P(x) = TYPE /\ S(x) = n}}
Sh(c) == "@" \o c
KindsOf(t) == IF P(t) = TYPE THEN {O(t)[2]}
              ELSE {O(t)[1]} \cup (IF IsNode(O(t)) THEN {Sh(c) : c \in ClassesOf(O(t)[2])} ELSE {})
KMatch(t, k) == IF k = "NONLITERAL" THEN O(t)[1] \in {"IRI","BNode"} /\ P(t) # TYPE ELSE k \in KindsOf(t)
DN(n, p, k) == Cardinality({t \in G : S(t) = n /\ P(t) = p /\ KMatch(t, k)})
DCount(c, p, k, card) == Cardinality({n \in Inst(c) : IF card = PLUS THEN DN(n,p,k) >= 1 ELSE DN(n,p,k) = card})
\* value class of a kind (C02 key)
VC(p, k) == IF p = TYPE THEN k ELSE IF k \in {"IRI","BNode","NONLITERAL"} \/ SubSeq(k,1,1) = "@" THEN "nonliteral" ELSE k
ExpectedKeys(c, thr) == {<<t[2], VC(t[2], k)>> : t \in {x \in G : S(x) \in Inst(c)}, k \in {"IRI","BNode","str","int"} \cup Classes}
\* (filtered below by frequency)
FreqOK(n, N, thr) == n * thr[2] >= thr[1] * N
HasVC(n, p, vc) == \E t \in G : S(t) = n /\ P(t) = p /\
                     (IF p = TYPE THEN O(t)[2] = vc ELSE IF vc = "nonliteral" THEN IsNode(O(t)) ELSE O(t)[1] = vc)
DKeys(c, thr) == {key \in {<<p, vc>> : p \in Props, vc \in {"nonliteral","str","int"} \cup Classes} :
                    /\ \E n \in Inst(c) : HasVC(n, key[1], key[2])
                    /\ FreqOK(Cardinality({n \in Inst(c) : HasVC(n, key[1], key[2])}), Cardinality(Inst(c)), thr)}
\* ------------------------------------------------------------------ operational (order-free, ties by CHOOSE)
AllKinds == {"IRI","BNode","str","int"} \cup Classes \cup {Sh(c) : c \in Classes}
ProfDom == {q \in {<<c,p,k,card>> : c \in Classes, p \in Props, k \in AllKinds, card \in 0..K} :
              /\ (q[2] = TYPE => q[4] = 1)
              /\ DCount(q[1],q[2],q[3],q[4]) > 0}
Prof == [q \in ProfDom |-> DCount(q[1],q[2],q[3],q[4])]   \* pass 1+2+profile proven equal to this in Proto.tla
CC(c) == Cardinality(Inst(c))
Cands(c, thr) == {q \in ProfDom : q[1] = c /\ FreqOK(Prof[q], CC(c), thr)}
Stmt(p,k,card,n,com) == [p |-> p, k |-> k, ks |-> {}, card |-> card, n |-> n, com |-> com]
CRASH == Stmt("CRASH","",0,0,{})
IsCrash(x) == x.p = "CRASH"
Fact(s) == <<s.k, s.card, s.n>>
MaxN(ss) == CHOOSE s \in ss : \A r \in ss : r.n <= s.n
SelectSame(grp, c) ==   \* grp: set of statements same p,k
  IF Cardinality(grp) = 1 THEN CHOOSE s \in grp : TRUE
  ELSE IF c.discardUseless /\ Cardinality(grp) = 2 /\ (\E a, b \in grp : a # b /\ a.n = b.n /\ a.card = PLUS /\ b.card # PLUS)
       THEN CHOOSE s \in grp : s.card # PLUS
  ELSE LET plus == {s \in grp : s.card = PLUS}
           nonplus == grp \ plus
           res == IF c.keepLess THEN (IF plus # {} THEN CHOOSE s \in plus : TRUE ELSE MaxN(grp))
                  ELSE (IF nonplus # {} THEN MaxN(nonplus) ELSE MaxN(grp))
       IN [res EXCEPT !.com = {Fact(s) : s \in {x \in grp : x.card # res.card}}]
Stage1(c, cl, thr) == LET cs == Cands(cl, thr)
                          pk == {<<q[2],q[3]>> : q \in cs}
                      IN {SelectSame({Stmt(q[2],q[3],q[4],Prof[q],{}) : q \in {x \in cs : x[2] = key[1] /\ x[3] = key[2]}}, c) : key \in pk}
IsShape(k) == Len(k) > 0 /\ SubSeq(k,1,1) = "@"
IsNL(s) == s.p # TYPE /\ (s.k \in {"IRI","BNode"} \/ IsShape(s.k))
MostGeneral(a, b) == IF a = PLUS \/ b = PLUS \/ a # b THEN PLUS ELSE a
\* returns a statement or the string "CRASH"
Merge(grp, c) ==
  IF Cardinality(grp) = 1 THEN CHOOSE s \in grp : TRUE
  ELSE LET bn == {s \in grp : s.k = "BNode"}
           iri == {s \in grp : s.k = "IRI"}
           shp == {s \in grp : IsShape(s.k)}
           B == CHOOSE s \in bn : TRUE
           I == CHOOSE s \in iri : TRUE
           Top == MaxN(shp)
           feed(dom) == (IF bn # {} THEN {Fact(B)} ELSE {}) \cup (IF bn # {} /\ iri # {} THEN {Fact(I)} ELSE {})
                         \cup {Fact(s) : s \in {x \in shp : x # dom}}
           dom0 == IF bn # {} THEN
                      IF iri # {} THEN
                         IF shp = {} THEN CRASH
                         ELSE IF Cardinality(shp) = 1 /\ I.n + B.n = Top.n THEN Top
                         ELSE Stmt(B.p, "NONLITERAL", MostGeneral(B.card, I.card), B.n + I.n, {})
                      ELSE IF shp # {} /\ Top.n = B.n THEN Top ELSE B
                   ELSE IF iri = {} THEN CRASH
                   ELSE IF Top.n < I.n THEN I ELSE Top
       IN IF IsCrash(dom0) THEN CRASH
          ELSE LET types == IF c.disableOr THEN {}
                            ELSE IF c.redundantOr THEN (IF dom0 \in shp THEN {} ELSE {dom0.k}) \cup {s.k : s \in shp}
                            ELSE IF dom0 \in shp THEN {s.k : s \in shp} ELSE {}
                   dom1 == IF Cardinality(types) > 1 THEN [dom0 EXCEPT !.ks = types, !.com = {}] ELSE dom0
               IN [dom1 EXCEPT !.com = @ \cup feed(dom0)]
Stage2(ss, c) == LET lit == {s \in ss : ~IsNL(s)}
                     ps == {s.p : s \in ss \ lit}
                 IN lit \cup {Merge({s \in ss \ lit : s.p = p}, c) : p \in ps}
Tune(ss, N, c) ==
  LET relax(s) == IF c.allCompliant /\ s.n # N
                  THEN [s EXCEPT !.com = @ \cup {Fact(s)}, !.card = IF c.allowOpt /\ s.card = 1 THEN OPT ELSE STAR, !.n = N]
                  ELSE s
      gen(s) == IF c.disableExact /\ s.card > 1 THEN [s EXCEPT !.card = PLUS] ELSE s
  IN {gen(relax(s)) : s \in ss}
ShapeOf(cl, c) == LET s2 == Stage2(Stage1(c, cl, c.thr), c)
                  IN IF CRASH \in s2 THEN {CRASH} ELSE Tune(s2, CC(cl), c)
Out(c) == [cl \in {x \in Classes : Inst(x) # {}} |-> ShapeOf(cl, c)]
\* ------------------------------------------------------------------ behaviour
Init == last = 0 /\ doc = <<>> /\ pc = "gen" /\ cfg \in Cfgs /\ out = <<>>
Add == /\ pc = "gen" /\ Len(doc) < K
       /\ \E i \in (last+1)..M : doc' = Append(doc, U[i]) /\ last' = i
       /\ UNCHANGED <<pc, cfg, out>>
Run == /\ pc = "gen" /\ pc' = "done" /\ out' = Out(cfg) /\ UNCHANGED <<last, doc, cfg>>
Next == Add \/ Run
Spec == Init /\ [][Next]_vars
\* ------------------------------------------------------------------ properties
NoCrash == pc = "done" => \A cl \in DOMAIN out : CRASH \notin out[cl]
Good(cl) == CRASH \notin out[cl]
\* C01: every figure on a non-relaxed line and every comment fact is exact; ratio <= 100%
FigOK(cl, p, fact) == fact[3] = DCount(cl, p, fact[1], fact[2])
C01 == pc = "done" => \A cl \in DOMAIN out : Good(cl) =>
          \A s \in out[cl] : /\ \A f \in s.com : FigOK(cl, s.p, f)
                             /\ (s.card \notin {STAR, OPT} /\ s.ks = {} /\ ~cfg.disableExact => FigOK(cl, s.p, Fact(s)))
                             /\ s.n <= CC(cl)
C02 == pc = "done" => \A cl \in DOMAIN out : Good(cl) =>
          /\ {<<s.p, VC(s.p, s.k)>> : s \in out[cl]} = DKeys(cl, cfg.thr)
          /\ \A s1, s2 \in out[cl] : (s1.p = s2.p /\ VC(s1.p,s1.k) = VC(s2.p,s2.k)) => s1 = s2
\* C03 (local, non-recursive part): cardinalities respected by every instance for literal / kind constraints
CardOK(cnt, card) == CASE card = PLUS -> cnt >= 1 [] card = STAR -> TRUE [] card = OPT -> cnt <= 1 [] OTHER -> cnt = card
MatchesStmt(t, s) == IF s.ks # {} THEN \E k \in s.ks : KMatch(t, k) ELSE KMatch(t, s.k)
C03local == (pc = "done" /\ cfg.allCompliant /\ cfg.thr[1] = 0) => \A cl \in DOMAIN out : Good(cl) =>
          \A n \in Inst(cl) : \A s \in out[cl] :
             LET vals == {t \in G : S(t) = n /\ P(t) = s.p /\ (IF s.p = TYPE THEN TRUE ELSE VC(s.p, O(t)[1]) = VC(s.p, s.k))}
                 mine == IF s.p = TYPE THEN {t \in vals : O(t)[2] = s.k} ELSE vals
             IN /\ \A t \in mine : MatchesStmt(t, s)
                /\ CardOK(Cardinality(mine), s.card)

\* ------------------------------------------------------------------ ShEx conformance (greatest fixpoint) and the strict domain of C03
NodeIds == {S(t) : t \in G} \cup {O(t)[2] : t \in {x \in G : IsNode(O(x)) /\ P(x) # TYPE}}
ClassOfShape(k) == SubSeq(k, 2, Len(k))
MatchK(t, k, T) == CASE k = "IRI" -> O(t)[1] = "IRI"
                     [] k = "BNode" -> O(t)[1] = "BNode"
                     [] k = "NONLITERAL" -> IsNode(O(t))
                     [] IsShape(k) -> IsNode(O(t)) /\ <<O(t)[2], ClassOfShape(k)>> \in T
                     [] OTHER -> O(t)[1] = k
MatchS(t, s, T) == IF s.p = TYPE THEN O(t)[2] = s.k
                   ELSE IF s.ks # {} THEN \E k \in s.ks : MatchK(t, k, T) ELSE MatchK(t, s.k, T)
LocalOK(n, cl, T) == LET ss == out[cl] IN
   /\ \A t \in {x \in G : S(x) = n /\ P(x) \in {s.p : s \in ss}} : \E s \in ss : s.p = P(t) /\ MatchS(t, s, T)
   /\ \A s \in ss : CardOK(Cardinality({t \in G : S(t) = n /\ P(t) = s.p /\ MatchS(t, s, T)}), s.card)
RECURSIVE Gfp(_)
Gfp(T) == LET T2 == {x \in T : LocalOK(x[1], x[2], T)} IN IF T2 = T THEN T ELSE Gfp(T2)
Typing == Gfp(NodeIds \X {cl \in DOMAIN out : Good(cl)})
\* strict domain: per (class, property) the non-literal neighbours are homogeneous in kind and either all untyped or all single-typed in one class
NLObjs(cl, p) == {O(t) : t \in {x \in G : S(x) \in Inst(cl) /\ P(x) = p /\ IsNode(O(x))}}
SchemaConsistent == \A cl \in Classes, p \in Props \ {TYPE} :
    LET os == NLObjs(cl, p) IN
      /\ Cardinality({o[1] : o \in os}) <= 1
      /\ \/ \A o \in os : ClassesOf(o[2]) = {}
         \/ \E c2 \in Classes : \A o \in os : ClassesOf(o[2]) = {c2}
C03 == (pc = "done" /\ cfg.allCompliant /\ cfg.thr[1] = 0 /\ cfg.keepLess /\ SchemaConsistent) =>
          \A cl \in DOMAIN out : Good(cl) => \A n \in Inst(cl) : <<n, cl>> \in Typing
C03opt == (pc = "done" /\ cfg.allCompliant /\ cfg.thr[1] = 0 /\ cfg.keepLess /\ SchemaConsistent) =>
          \A cl \in DOMAIN out : Good(cl) => \A s \in out[cl] : s.card = OPT =>
             \A n \in Inst(cl) : Cardinality({t \in G : S(t) = n /\ P(t) = s.p /\ MatchS(t, s, Typing)}) <= 1
\* C01 with the property's own carve-out for NONLITERAL lines
BothKinds(cl, p) == \E n \in Inst(cl) : DN(n, p, "IRI") > 0 /\ DN(n, p, "BNode") > 0
FactOK(cl, p, f) == (f[1] = "NONLITERAL" /\ BothKinds(cl, p)) \/ FigOK(cl, p, f)
C01c == pc = "done" => \A cl \in DOMAIN out : Good(cl) =>
          \A s \in out[cl] : /\ \A f \in s.com : FactOK(cl, s.p, f)
                             /\ (s.card \notin {STAR, OPT} /\ s.ks = {} => (FactOK(cl, s.p, Fact(s))
                                   \/ (cfg.disableExact /\ s.card = PLUS /\ \E c \in 2..K : FigOK(cl, s.p, <<s.k, c, s.n>>))))
                             /\ (~(s.k = "NONLITERAL" /\ BothKinds(cl, s.p)) => s.n <= CC(cl))
\* C02 restricted to classes/properties without mixed IRI/BNode kinds (to look for *other* deviations)
Mixed(cl, p) == (\E n \in Inst(cl) : DN(n, p, "IRI") > 0) /\ (\E n \in Inst(cl) : DN(n, p, "BNode") > 0)
C02m == pc = "done" => \A cl \in DOMAIN out : Good(cl) =>
          /\ {k \in {<<s.p, VC(s.p, s.k)>> : s \in out[cl]} : ~Mixed(cl, k[1])} = {k \in DKeys(cl, cfg.thr) : ~Mixed(cl, k[1])}
          /\ \A s1, s2 \in out[cl] : (s1.p = s2.p /\ VC(s1.p,s1.k) = VC(s2.p,s2.k)) => s1 = s2
====
