---- MODULE Ep ----
EXTENDS Integers, Sequences, FiniteSets, TLC
CONSTANTS Nodes, TYPE, Props, MaxCalls
VARIABLES remote, local, subjT, objT, nq, nqNoCache, calls, lastAns, lastRef
vars == <<remote, local, subjT, objT, nq, nqNoCache, calls, lastAns, lastRef>>
Triples == Nodes \X (Props \cup {TYPE}) \X Nodes
Init == /\ remote \in {g \in SUBSET Triples : Cardinality(g) <= 2}
        /\ local = {} /\ subjT = {} /\ objT = {} /\ nq = 0 /\ nqNoCache = 0 /\ calls = 0 /\ lastAns = {} /\ lastRef = {}
RPO(s) == {t \in remote : t[1] = s}
RSP(o) == {t \in remote : t[3] = o}
RCl(s) == {t \in remote : t[1] = s /\ t[2] = TYPE}
PO(s) == /\ calls < MaxCalls /\ calls' = calls + 1
         /\ IF s \in subjT THEN local' = local /\ nq' = nq ELSE local' = local \cup RPO(s) /\ nq' = nq + 1
         /\ subjT' = subjT \cup {s}
         /\ lastAns' = {t \in local' : t[1] = s} /\ lastRef' = RPO(s)
         /\ nqNoCache' = nqNoCache + 1 /\ UNCHANGED <<remote, objT>>
SP(o) == /\ calls < MaxCalls /\ calls' = calls + 1
         /\ IF o \in objT THEN local' = local /\ nq' = nq ELSE local' = local \cup RSP(o) /\ nq' = nq + 1
         /\ objT' = objT \cup {o}
         /\ lastAns' = {t \in local' : t[3] = o} /\ lastRef' = RSP(o)
         /\ nqNoCache' = nqNoCache + 1 /\ UNCHANGED <<remote, subjT>>
Cl(s) == /\ calls < MaxCalls /\ calls' = calls + 1
         /\ IF s \in subjT THEN local' = local /\ nq' = nq ELSE local' = local \cup RCl(s) /\ nq' = nq + 1
         /\ subjT' = subjT \cup {s}       \* as coded: marks the subject fully tracked after fetching only its class triples
         /\ lastAns' = {t \in local' : t[1] = s /\ t[2] = TYPE} /\ lastRef' = RCl(s)
         /\ nqNoCache' = nqNoCache + 1 /\ UNCHANGED <<remote, objT>>
Next == \E n \in Nodes : PO(n) \/ SP(n) \/ Cl(n)
Spec == Init /\ [][Next]_vars
Coherent == lastAns = lastRef
Cheaper == nq <= nqNoCache
LocalSound == local \subseteq remote
====
