from probe import *
import rdflib, os, gzip, zipfile, xz, tempfile, shutil
rnd = random.Random(31); stats = collections.Counter(); ex = {}
def chk(name, ok, detail=None):
    stats[name + (":ok" if ok else ":DIFF")] += 1
    if not ok and name not in ex: ex[name] = detail
def noB(T): return [t for t in T if t[0][0] != "bnode" and t[2][0] != "bnode"]
def runk(thr, **kw):
    kw.setdefault("all_classes_mode", True); kw.setdefault("instances_report_mode", MIXED_INSTANCES)
    signal.alarm(10)
    try:
        return proj(Shaper(**kw).shex_graph(string_output=True, acceptance_threshold=thr))
    except TO: return "HANG"
    except Exception as e: return "EXC:" + type(e).__name__ + ":" + str(e)[:60]
    finally: signal.alarm(0)
d = tempfile.mkdtemp(prefix="p08")
try:
    for i in range(150):
        T = noB(gen_graph(rnd))
        if len(T) < 2: continue
        thr = rnd.choice([0, .5]); b = dict(keep_less_specific=rnd.random()<.6, all_instances_are_compliant_mode=rnd.random()<.5)
        nt = to_nt(T)
        ref = runk(thr, raw_graph=nt, input_format=NT, **b)
        if isinstance(ref, str): stats["crash_ref"] += 1; continue
        g = rdflib.Graph(); g.parse(data=nt, format="nt")
        paths = {}
        for fmt, ext in [("nt", "nt"), ("turtle", "ttl"), ("xml", "xml"), ("json-ld", "json"), ("n3", "n3")]:
            paths[ext] = os.path.join(d, "g." + ext); g.serialize(destination=paths[ext], format=fmt)
        open(os.path.join(d, "g.tsv"), "w").write("".join("\t".join(l[:-2].split(" ", 2)) + "\n" for l in nt.strip().split("\n")))
        lines = nt.strip().split("\n"); k = rnd.randint(1, len(lines) - 1)
        open(os.path.join(d, "p1.nt"), "w").write("\n".join(lines[:k]) + "\n"); open(os.path.join(d, "p2.nt"), "w").write("\n".join(lines[k:]) + "\n")
        with gzip.open(os.path.join(d, "g.nt.gz"), "wt") as f: f.write(nt)
        with xz.open(os.path.join(d, "g.nt.xz"), "wt") as f: f.write(nt)
        with zipfile.ZipFile(os.path.join(d, "g.zip"), "w") as z: z.write(os.path.join(d, "p1.nt"), "p1.nt"); z.write(os.path.join(d, "p2.nt"), "p2.nt")
        with gzip.open(os.path.join(d, "g.ttl.gz"), "wt") as f: f.write(open(paths["ttl"]).read())
        chans = {
          "file_nt": dict(graph_file_input=paths["nt"], input_format=NT), "tsv": dict(graph_file_input=os.path.join(d, "g.tsv"), input_format=TSV_SPO),
          "ttl_rdflib": dict(graph_file_input=paths["ttl"], input_format=TURTLE), "ttl_iter": dict(graph_file_input=paths["ttl"], input_format=TURTLE_ITER),
          "xml": dict(graph_file_input=paths["xml"], input_format=RDF_XML), "jsonld": dict(graph_file_input=paths["json"], input_format=JSON_LD),
          "n3": dict(graph_file_input=paths["n3"], input_format=N3), "graph_obj": dict(rdflib_graph=g), "raw_ttl": dict(raw_graph=open(paths["ttl"]).read(), input_format=TURTLE),
          "list_nt": dict(graph_list_of_files_input=[os.path.join(d, "p1.nt"), os.path.join(d, "p2.nt")], input_format=NT),
          "gz": dict(graph_file_input=os.path.join(d, "g.nt.gz"), input_format=NT, compression_mode=GZ), "xz": dict(graph_file_input=os.path.join(d, "g.nt.xz"), input_format=NT, compression_mode=XZ),
          "zip": dict(graph_file_input=os.path.join(d, "g.zip"), input_format=NT, compression_mode=ZIP), "ttl_gz_rdflib": dict(graph_file_input=os.path.join(d, "g.ttl.gz"), input_format=TURTLE, compression_mode=GZ),
        }
        for name, kw in chans.items():
            o = runk(thr, **kw, **b)
            if isinstance(o, str): chk(name, False, (i, o)); continue
            same = keys(o) == keys(ref) and facts(o) == facts(ref) and {s["label"]: s["n"] for s in o} == {s["label"]: s["n"] for s in ref}
            chk(name, same, (i, thr, b, sorted(facts(o) ^ facts(ref))[:3], sorted(keys(o) ^ keys(ref))[:3]))
finally:
    shutil.rmtree(d)
print(sorted(stats.items()))
for k, v in ex.items(): print(k, v)
