SPECIFICATION Spec
CONSTANTS
 Alphabet = {"EQ","EB","@","HH","#","SD","<",">","XS","7","_","a","%"}
 L = 2
 MARK = "%"
INVARIANT Report
CHECK_DEADLOCK FALSE
