from probe import *
import rdflib
from rdflib import RDF, URIRef
SHN = "http://www.w3.org/ns/shacl#"
def shacl_cons(text):
    g = rdflib.Graph(); g.parse(data=text, format="turtle")
    out = set(); problems = []
    for sh in g.subjects(RDF.type, URIRef(SHN + "NodeShape")):
        for ps in g.objects(sh, URIRef(SHN + "property")):
            paths = list(g.objects(ps, URIRef(SHN + "path"))); inv = False
            if not paths:
                for sub in g.objects(ps, URIRef(SHN + "property")):
                    ip = list(g.objects(sub, URIRef(SHN + "inversePath")))
                    if ip: paths = ip; inv = True
            if len(paths) != 1: problems.append(("paths", str(sh), len(paths))); continue
            mn = [int(x) for x in g.objects(ps, URIRef(SHN + "minCount"))]; mx = [int(x) for x in g.objects(ps, URIRef(SHN + "maxCount"))]
            vals = []
            for x in g.objects(ps, URIRef(SHN + "dataType")): vals.append(str(x))
            for x in g.objects(ps, URIRef(SHN + "nodeKind")): vals.append({"IRI": "IRI", "BlankNode": "BNode", "BlankNodeOrIRI": "NONLITERAL", "Literal": "LITERAL"}[str(x)[len(SHN):]])
            for x in g.objects(ps, URIRef(SHN + "node")): vals.append("@" + str(x))
            for x in g.objects(ps, URIRef(SHN + "in")):
                vals.append(str(next(g.objects(x, RDF.first))))
            out.add((str(sh), inv, str(paths[0]), "|".join(sorted(vals)), mn[0] if mn else 0, mx[0] if mx else -1))
    return out, problems
def minmax(card): return {0: (1, -1), -1: (0, -1), -2: (0, 1)}.get(card, (card, card))
rnd = random.Random(41); stats = collections.Counter(); ex = {}
def chk(name, ok, detail=None):
    stats[name + (":ok" if ok else ":DIFF")] += 1
    if not ok and name not in ex: ex[name] = detail
for i in range(300):
    T = gen_graph(rnd); thr = rnd.choice([0, .5])
    b = dict(keep_less_specific=rnd.random()<.6, all_instances_are_compliant_mode=rnd.random()<.5, inverse_paths=rnd.random()<.4)
    signal.alarm(10)
    try:
        s = Shaper(raw_graph=to_nt(T), input_format=NT, all_classes_mode=True, instances_report_mode=MIXED_INSTANCES, **b)
        x = s.shex_graph(string_output=True, acceptance_threshold=thr); y = s.shex_graph(string_output=True, acceptance_threshold=thr, output_format=SHACL_TURTLE)
    except Exception as e: stats["crash:" + type(e).__name__] += 1; signal.alarm(0); continue
    signal.alarm(0)
    sx = {(t[0], t[1], t[2], t[3]) + minmax(t[4]) for t in cons(proj(x))}
    try: sy, problems = shacl_cons(y)
    except Exception as e: chk("shacl_parses", False, (i, str(e)[:100])); continue
    chk("shacl_paths", not problems, problems[:2])
    chk("equiv", sx == sy, (i, sorted(sx ^ sy)[:4]))
    if sx != sy:
        kinds = collections.Counter(t[3] for t in sx - sy); stats["missing_kinds:" + ",".join(sorted(set(k if not k.startswith(("@","http")) else k[:1] for k in kinds)))] += 1
print(sorted(stats.items()))
for k, v in ex.items(): print(k, v)
