#!/bin/sh
# Run once after a fresh restore, offline: parse every specification module (SANY) and check the tool chain.
set -e
cd "$(dirname "$0")"
for m in spec/*.tla; do
  ( cd spec && java -cp /opt/veriftools/tla/tla2tools.jar:/opt/veriftools/tla/CommunityModules-deps.jar tla2sany.SANY "$(basename "$m")" > /tmp/sany.$$ 2>&1 ) || { cat /tmp/sany.$$; rm -f /tmp/sany.$$; echo "SANY failed on $m"; exit 1; }
  if grep -q "Semantic errors\|Parse Error\|Could not" /tmp/sany.$$; then cat /tmp/sany.$$; rm -f /tmp/sany.$$; echo "SANY failed on $m"; exit 1; fi
done
rm -f /tmp/sany.$$
/venv/bin/python -c "import sys; sys.path.insert(0, '/repo'); import shexer, rdflib; print('shexer importable from /repo')"
mkdir -p evidence replays
echo "setup ok"
