"""Generators of abstract cases (graphs x configurations), seeded; they mirror DESIGN.md appendix B."""
import random
from harness import rdfmodel as M
from harness.runner import default_cfg

EX = M.EX
EX2 = "http://example.org/ns/"          # a namespace that has EX as a prefix
OTHER = "http://other.example.com/v#"
DT_DATE = M.XSD + "date"
DT_CUSTOM = "http://example.org/dt/len"

NSDICT = [[EX, "ex"], [M.XSD, "xsd"], [M.RDF, "rdf"], [OTHER, "oth"], [EX2, "exn"]]


def _lit(rnd, rich=True):
    r = rnd.random()
    if not rich:
        if r < .08:                                        # plain strings that spell a boolean: strings all the same
            return M.lit(rnd.choice(["true", "false"]))
        return M.lit("s%d" % rnd.randint(0, 4)) if r < .6 else M.lit(str(rnd.randint(0, 4)), M.XSD_INTEGER)
    if r < .03:
        return M.lit("")                                   # the empty string is a literal too
    if r < .06:                                            # line boundaries for str.splitlines(), not for N-Triples (those that XML 1.0 can carry: every channel must deliver them)
        return M.lit("a%sb" % rnd.choice(["\u2028", "\x85", "\u2029"]), lang=rnd.choice([None, None, "en"]))
    if r < .10:                                            # plain strings that read like numbers or booleans are strings
        return M.lit(rnd.choice(["33001", "3.14", "1e3", "nan", "+8", "-0", "true", "false", "0261103571"]))
    if r < .14:                                            # a line feed inside the lexical form, whatever the kind of the literal
        return rnd.choice([M.lit("l1\nl2", lang="en"), M.lit("x\ny", DT_CUSTOM), M.lit("a\nb"), M.lit("v1\n\nv2", lang="es")])
    if r < .17:                                            # a link written as a typed literal is a literal (its text may name a node of the graph)
        return M.lit(EX + rnd.choice(["n0", "n1", "u0", "home"]), M.XSD + "anyURI")
    if r < .4:
        return M.lit("s%d" % rnd.randint(0, 4))
    if r < .6:
        return M.lit(str(rnd.randint(0, 4)), M.XSD_INTEGER)
    if r < .75:
        return M.lit("w%d" % rnd.randint(0, 3), lang=rnd.choice(["en", "es"]))
    if r < .9:
        return M.lit("2020-01-0%d" % rnd.randint(1, 5), DT_DATE)
    return M.lit(str(rnd.randint(0, 3)), DT_CUSTOM)


def with_homographs(T, rnd, p=.3):
    """inserts, next to each other in the document, values of one (subject, property) that print alike but are different terms:
    the same lexical form with two datatypes, or an IRI and a literal with the same text"""
    if not T or rnd.random() > p:
        return T
    subs = sorted({s for s, _p, _o in T})
    props = sorted({pp for _s, pp, _o in T if pp != M.RDF_TYPE}) or [EX + "p0"]
    s, pp = rnd.choice(subs), rnd.choice(props)
    lex = str(rnd.randint(5, 9))
    typed = sorted({x for x, q, _o in T if q == M.RDF_TYPE})
    pair = rnd.choice([[M.lit(lex, M.XSD_INTEGER), M.lit(lex)], [M.lit(lex), M.lit(lex, DT_CUSTOM)],
                       [M.iri(EX + "u0"), M.lit(EX + "u0")], [M.lit("true", M.XSD + "boolean"), M.lit("true")],
                       # the same text in two (three) languages: as many values; a link written as an xsd:anyURI literal: a literal
                       [M.lit("Paris", lang="en"), M.lit("Paris", lang="fr")], [M.lit("Roma", lang="it"), M.lit("Roma", lang="es"), M.lit("Roma", lang="en")],
                       [M.lit(EX + "u0", M.XSD + "anyURI"), M.iri(EX + "u0")]] +
                      # a literal whose text is the identifier of a typed node: not a link to that node
                      ([[M.lit(n[1])] for n in typed[:3]] if typed else []))
    rnd.shuffle(pair)
    new = [(s, pp, o) for o in pair if (s, pp, o) not in T]
    if len(new) < len(pair):
        return T
    i = rnd.randint(0, len(T))
    return T[:i] + new + T[i:]


def general_graph(rnd, max_nodes=7, bnodes=True, rich_literals=True, inst_prop=M.RDF_TYPE, odd_names=False, hierarchy=True):
    """2..max_nodes subject nodes (<= 25 % blank), 1-3 classes, nodes in 0-3 classes, 1-4 properties in two
    namespaces (one a prefix of the other), objects: typed / untyped IRIs, blank nodes, literals; 0-3 values"""
    nn = rnd.randint(2, max_nodes)
    def name(i):      # local names with ':', '.', '-', '_' and a leading digit are legal prefixed-name local parts
        return rnd.choice(["item:%d", "n.%d", "n-%d_x", "%dn"]) % i if (odd_names and rnd.random() < .5) else "n%d" % i
    blabel = (lambda i: ["b1", "b12", "b1x", "b", "b120", "n7", "n70"][i]) if rnd.random() < .3 else (lambda i: "b%d" % i)   # labels that are prefixes of one another
    nodes = [M.iri(EX + name(i)) if (not bnodes or rnd.random() < 0.78) else M.bnode(blabel(i)) for i in range(nn)]
    classes = [EX + "C%d" % i for i in range(rnd.randint(1, 3))]
    if rnd.random() < .12:      # distinct local names that differ only in '-', '_', '.' (all legal in a prefixed name)
        classes = [EX + n for n in ["K-1", "K_1", "K.1"][:len(classes)]]
    props = [EX + "p%d" % i for i in range(rnd.randint(1, 3))]
    if rich_literals and rnd.random() < .15:      # IRIs are not only ASCII letters: percent-escapes and non-ASCII characters
        props.append(EX + rnd.choice(["caf%C3%A9", "a\u00f1o", "t\u00eate%20x"]))
    if rich_literals and rnd.random() < .1:
        classes.append(EX + rnd.choice(["R%C3%A9al", "Stra\u00dfe"]))
    if rnd.random() < .45:
        props.append(EX2 + "q0")
    if rnd.random() < .2:
        props.append(OTHER + "r0")
    untyped = [M.iri(EX + "u%d" % i) for i in range(2)] + ([M.bnode("u0")] if bnodes else [])
    if rnd.random() < .3:         # IRIs are not only http(s)
        untyped += [M.iri("urn:ex:thing:%d" % rnd.randint(0, 2)), M.iri("mailto:u%d@example.org" % rnd.randint(0, 1))]
    T = set()
    pclass = rnd.choice([.35, .55, .8])
    for n in nodes:
        for c in classes:
            if rnd.random() < pclass:
                T.add((n, inst_prop, M.iri(c)))
    for n in nodes:
        for p in props:
            for _ in range(rnd.choice([0, 0, 1, 1, 1, 2, 3])):
                r = rnd.random()
                if r < .35:
                    o = rnd.choice(nodes)
                elif r < .5:
                    o = rnd.choice(untyped)
                else:
                    o = _lit(rnd, rich_literals)
                T.add((n, p, o))
    if hierarchy and rnd.random() < (.25 if hierarchy in (True, "props") else float(hierarchy)):      # the classes are described in the data too (typed with a meta-class, linked from / to nodes)
        for c in classes:
            if rnd.random() < .7:
                T.add((M.iri(c), inst_prop, M.iri(EX + "Kind")))
            if rnd.random() < .4:
                T.add((M.iri(c), rnd.choice(props), rnd.choice(nodes)))
            if rnd.random() < .3:
                T.add((rnd.choice(nodes), rnd.choice(props), M.iri(c)))
    if hierarchy and rnd.random() < (1.0 if hierarchy == "props" else .15):      # the properties are described in the data too: one IRI is a predicate here and a node there
        for p in rnd.sample(props, rnd.randint(1, len(props))):
            T.add((M.iri(p), inst_prop, M.iri(rnd.choice(classes + [EX + "Prop"]))))
            if rnd.random() < .5:
                T.add((rnd.choice(nodes), rnd.choice(props), M.iri(p)))
            if rnd.random() < .4:
                T.add((M.iri(p), rnd.choice(props), _lit(rnd, rich_literals)))
    T = sorted(T, key=str)
    rnd.shuffle(T)
    return with_homographs(T, rnd) if rich_literals else T


def multi_graph(rnd, inst_prop=M.RDF_TYPE):
    """multi-valued properties: 1-2 classes of 3-6 instances; per (class, property) one value kind and, per instance, 0-4 values of
    that kind, so that several exact cardinalities compete with '+' for the same (property, kind)"""
    classes = [EX + "M%d" % i for i in range(rnd.randint(1, 2))]
    props = [EX + "m%d" % i for i in range(rnd.randint(1, 3))]
    T = set()
    nid = 0
    members = {}
    for c in classes:
        members[c] = [M.iri(EX + "k%d" % (nid + j)) for j in range(rnd.randint(3, 6))]
        nid += len(members[c])
        for n in members[c]:
            T.add((n, inst_prop, M.iri(c)))
    everyone = [n for c in classes for n in members[c]]
    for c in classes:
        for p in props:
            kind = rnd.choice(["str", "int", "node", "untyped"])
            weights = rnd.choice([[0, 1, 2, 2, 2, 3], [1, 2, 2, 3], [1, 1, 1, 2], [2, 2, 2, 2, 3, 4], [0, 2, 3]])
            for n in members[c]:
                k = rnd.choice(weights)
                if kind == "node":
                    vals = rnd.sample(everyone, min(k, len(everyone)))
                elif kind == "untyped":
                    vals = [M.iri(EX + "v%d" % j) for j in rnd.sample(range(5), k)]
                elif kind == "int":
                    vals = [M.lit(str(j), M.XSD_INTEGER) for j in rnd.sample(range(6), k)]
                else:
                    vals = [M.lit("t%d" % j) for j in rnd.sample(range(6), k)]
                for o in vals:
                    T.add((n, p, o))
    T = sorted(T, key=str)
    rnd.shuffle(T)
    return T


def incoming_graph(rnd):
    """instances (IRIs and blank nodes) of a class that receive links from subjects of every sort: instances of another class,
    untyped IRIs, untyped blank nodes, other instances of their own class - several per instance, so that losing any one of them
    changes a cardinality"""
    na = rnd.randint(3, 5)
    A = [M.iri(EX + "a%d" % i) if rnd.random() < .55 else M.bnode("a%d" % i) for i in range(na)]
    B = [M.iri(EX + "b%d" % i) for i in range(rnd.randint(1, 2))]
    U = [M.iri(EX + "u%d" % i) for i in range(2)] + [M.bnode("u%d" % i) for i in range(2)]
    T = [(x, M.RDF_TYPE, M.iri(EX + "A")) for x in A] + [(x, M.RDF_TYPE, M.iri(EX + "B")) for x in B]
    for x in A:
        for p in (EX + "p", EX + "q"):
            for s_ in rnd.sample(B + U + A, rnd.randint(0, 3)):
                T.append((s_, p, x))
        if rnd.random() < .5:
            T.append((x, EX + "name", M.lit("n")))
    T = sorted(set(T), key=str)
    rnd.shuffle(T)
    return T


def sources_graph(rnd):
    """incoming links of one property from subjects of several classes: a target class T whose instances are linked by subjects of
    classes S0..Sk (IRI nodes, one class each) with very different frequencies; the rare source is often the first in the document"""
    nt = rnd.randint(3, 6)
    targets = [M.iri(EX + "t%d" % i) for i in range(nt)]
    T = [(x, M.RDF_TYPE, M.iri(EX + "T")) for x in targets]
    k = rnd.randint(2, 3)
    first = []
    for c in range(k):
        srcs = [M.iri(EX + "s%d_%d" % (c, j)) for j in range(rnd.randint(1, 3))]
        T += [(x, M.RDF_TYPE, M.iri(EX + "S%d" % c)) for x in srcs]
        share = [1, nt - 1, nt][c] if c < 3 else nt        # S0 reaches one target, the others nearly all
        for x in rnd.sample(targets, max(1, min(nt, share))):
            t = (rnd.choice(srcs), EX + "wrote", x)
            (first if c == 0 else T).append(t)
    if rnd.random() < .4:
        T += [(rnd.choice(targets), EX + "cites", rnd.choice(targets)) for _ in range(2)]
    T = sorted(set(T), key=str)
    rnd.shuffle(T)
    return (first + [t for t in T if t not in first]) if rnd.random() < .6 else T + first


def dense_graph(rnd, inst_prop=M.RDF_TYPE):
    """few nodes, many links: 3-5 subjects (40 % blank), 1-2 classes, 1-2 properties, 0-4 node-valued objects per
    (subject, property) drawn from IRI and blank nodes of the same classes: mixed node kinds with shape references"""
    nn = rnd.randint(3, 5)
    nodes = [M.iri(EX + "n%d" % i) if rnd.random() < .6 else M.bnode("b%d" % i) for i in range(nn)]
    classes = [EX + "C%d" % i for i in range(rnd.randint(1, 2))]
    props = [EX + "p%d" % i for i in range(rnd.randint(1, 2))]
    T = set()
    for n in nodes:
        cs = [c for c in classes if rnd.random() < .7] or [classes[0]]
        for c in cs:
            T.add((n, inst_prop, M.iri(c)))
    for n in nodes:
        for p in props:
            for o in rnd.sample(nodes, rnd.randint(0, min(4, len(nodes)))):
                T.add((n, p, o))
            if rnd.random() < .3:
                T.add((n, p, _lit(rnd, False)))
    T = sorted(T, key=str)
    rnd.shuffle(T)
    return T


def schema_graph(rnd, bnodes=True, inverse_safe=False, typed_classes=True):
    """schema first: per (class, property) a range = literal mix | untyped IRI | untyped blank | one single-typed
    class, then instances with arbitrary presence / cardinality.  Membership in C03's strict domain is re-decided
    by the specification (SchemaConsistent) on the logged graph."""
    ncls = rnd.randint(1, 3)
    classes = [EX + "C%d" % i for i in range(ncls)]
    props = [EX + "p%d" % i for i in range(rnd.randint(1, 4))]
    inst = {}
    nid = 0
    for c in classes:
        inst[c] = []
        for _ in range(rnd.randint(1, 4)):
            inst[c].append(M.iri(EX + "n%d" % nid) if (not bnodes or rnd.random() < .75) else M.bnode("b%d" % nid))
            nid += 1
    untyped_iri = [M.iri(EX + "u%d" % i) for i in range(3)]
    untyped_b = [M.bnode("u%d" % i) for i in range(3)]
    T = set()
    used_as_range = {}
    for c in classes:
        for n in inst[c]:
            T.add((n, M.RDF_TYPE, M.iri(c)))
        for p in props:
            r = rnd.random()
            if r < .3:
                rng = ("lit", None)
            elif r < .45:
                rng = ("nodes", untyped_iri)
            elif r < .55 and bnodes:
                rng = ("nodes", untyped_b)
            else:
                c2 = rnd.choice(classes)
                kind = rnd.choice(["IRI", "BNode"]) if bnodes else "IRI"
                cand = [x for x in inst[c2] if x[0] == kind]
                if inverse_safe and used_as_range.get((c2, p), c) != c:
                    cand = []
                if cand:
                    used_as_range[(c2, p)] = c
                rng = ("nodes", cand) if cand else ("lit", None)
            litmix = rnd.random() < .4
            for n in inst[c]:
                if rnd.random() < .25:
                    continue
                k = rnd.choice([1, 1, 1, 2, 3])
                if rng[0] == "nodes":
                    for o in rnd.sample(rng[1], min(k, len(rng[1]))):
                        T.add((n, p, o))
                if rng[0] == "lit" or (litmix and rnd.random() < .5):
                    for _ in range(rnd.choice([1, 1, 2])):
                        T.add((n, p, _lit(rnd)))
    # some instances carry a second type, a class nothing else refers to (ex:carol a foaf:Person, ex:Employee): with target
    # classes that leave it out, the extra rdf:type value is a feature like any other
    if rnd.random() < .3:
        for c in classes:
            for n in rnd.sample(inst[c], rnd.randint(0, len(inst[c]))):
                T.add((n, M.RDF_TYPE, M.iri(EX + "X%d" % rnd.randint(0, 1))))
    # the classes themselves described in the data (typed with a meta-class): with all-classes mode they are instances too
    if typed_classes and rnd.random() < .3:
        for c in classes:
            T.add((M.iri(c), M.RDF_TYPE, M.iri(EX + "Kind")))
    # a node may link to itself: such a triple is an outgoing and an incoming arc of the same node
    selfp = sorted({(c, p) for (c2, p), c in used_as_range.items() if c2 == c})
    if selfp and rnd.random() < .7:
        c, p = rnd.choice(selfp)
        kinds = {o[0] for s, pp, o in T if pp == p and s in inst[c]}
        # preferably a node that another instance already links to: its self-link is then one of several incoming arcs
        pointed = sorted({o for s, pp, o in T if pp == p and s in inst[c] and o in inst[c] and o != s})
        linked = pointed or [n for n in inst[c] if any(s == n and pp == p for s, pp, _o in T)]
        for n in rnd.sample(linked, min(len(linked), rnd.randint(1, 2))):
            if n[0] in kinds:
                T.add((n, p, n))
    T = sorted(T, key=str)
    rnd.shuffle(T)
    return with_homographs(T, rnd)


THRESHOLDS = [[0, 1], [0, 1], [1, 3], [1, 2], [51, 100], [2, 3], [1, 1]]


def switches(rnd, inverse=None, ors=False):
    cfg = dict(keepLess=rnd.random() < .65, discardUseless=rnd.random() < .5, allCompliant=rnd.random() < .6,
               allowOpt=rnd.random() < .7, disableExact=rnd.random() < .3,
               inverse=(rnd.random() < .35) if inverse is None else inverse,
               thr=rnd.choice(THRESHOLDS))
    if ors and rnd.random() < .4:
        cfg["disableOr"] = False
        cfg["redundantOr"] = rnd.random() < .5
    return cfg


def classes_of(T, inst_prop=M.RDF_TYPE):
    return sorted({o[1] for s, p, o in T if p == inst_prop and M.is_node(o)})


def case(cid, T, **cfg):
    return {"id": cid, "graph": M.to_json_graph(T), "cfg": default_cfg(**cfg)}


def boundary_graph(rnd):
    """one class with n in 20..45 instances, features held by exactly k of them: thresholds k/n sit exactly on a boundary
    for larger n than the small graphs reach (float(k)/n vs threshold arithmetic)"""
    n = rnd.choice([25, 25, 29, 35, 38, 41, 45, 20, 33])
    C = EX + "Wide"
    nodes = [M.iri(EX + "w%d" % i) for i in range(n)]
    ks = [rnd.randint(1, n - 1) for _ in range(3)]
    if n == 25:
        ks[0] = rnd.choice([7, 14])
    if n == 29:
        ks[0] = 15
    if n == 35:
        ks[0] = 29
    if n == 38:
        ks[0] = 21
    T = [(x, M.RDF_TYPE, M.iri(C)) for x in nodes]
    for j, k in enumerate(ks):
        for x in rnd.sample(nodes, k):
            T.append((x, EX + "f%d" % j, M.lit("v") if j != 1 else nodes[0]))
    rnd.shuffle(T)
    return T, [[k, n] for k in ks]


def partly_typed_case(rnd, cid):
    """a property whose IRI values are only partly instances of a shape: every instance of A has 1-3 values that are instances of S
    and 0-2 untyped IRI values (no blank nodes), so the 'IRI' statement and the '@S' statement of the property carry different
    exact cardinalities and compete in the node-kind merge; the number of S values varies between instances"""
    n = rnd.randint(3, 6)
    A = [M.iri(EX + "a%d" % i) for i in range(n)]
    T = [(x, M.RDF_TYPE, M.iri(EX + "A")) for x in A]
    sid = 0
    base_s, base_u = rnd.randint(1, 2), rnd.randint(0, 2)
    for i, x in enumerate(A):
        ks = base_s if rnd.random() < .6 else rnd.randint(1, 3)
        ku = base_u if rnd.random() < .7 else rnd.randint(0, 2)
        for _ in range(ks):
            s_ = M.iri(EX + "s%d" % sid)
            sid += 1
            T += [(x, EX + "p", s_), (s_, M.RDF_TYPE, M.iri(EX + "S"))]
        for j in range(ku):
            T.append((x, EX + "p", M.iri(EX + "u%d_%d" % (i, j))))
        if rnd.random() < .4:
            T.append((x, EX + "q", M.lit("v")))
    rnd.shuffle(T)
    cfg = switches(rnd, inverse=rnd.random() < .2)
    cfg.update(keepLess=rnd.random() < .35, report="mixed", comments=True, thr=rnd.choice([[0, 1], [0, 1], [1, 2]]))
    return case(cid, T, **cfg)


def typed_fan_graph(rnd):
    """a few subjects of one class, each with 2-4 IRI objects of one property; the objects belong to different sets of classes
    (none, one, two), so that which classes a later object adds depends on the order of the statements"""
    objs = [M.iri(EX + "o%d" % i) for i in range(rnd.randint(3, 5))]
    T = []
    for o in objs:
        for c in rnd.sample(["K0", "K1", "K2"], rnd.choice([0, 1, 1, 2])):
            T.append((o, M.RDF_TYPE, M.iri(EX + c)))
    for i in range(rnd.randint(2, 3)):
        x = M.iri(EX + "x%d" % i)
        T.append((x, M.RDF_TYPE, M.iri(EX + "A")))
        for o in rnd.sample(objs, rnd.randint(2, min(4, len(objs)))):
            T.append((x, EX + "p", o))
    rnd.shuffle(T)
    return T


def hub_case(rnd, cid):
    """one instance with more than a thousand values of one kind for one property (a hub: sitelinks, citations) - or, with inverse
    paths, more than a thousand incoming arcs - among n instances; the other features sit exactly on k/n thresholds"""
    n = rnd.randint(3, 5)
    big = rnd.choice([1001, 1003, 1024, 1100])
    A = [M.iri(EX + "a%d" % i) for i in range(n)]
    T = [(x, M.RDF_TYPE, M.iri(EX + "A")) for x in A]
    inverse = rnd.random() < .4
    hubs = rnd.sample(A, rnd.randint(1, 2))
    for h in hubs:
        for j in range(big):
            if inverse:
                T.append((M.iri(EX + "u%d" % j), EX + "cites", h))
            else:
                T.append((h, EX + "label", M.lit("v%d" % j)))
    k = rnd.randint(1, n - 1)
    for x in rnd.sample(A, k):
        T.append((x, EX + "name", M.lit("n")))
    thr = rnd.choice([[len(hubs) + 1, n], [k, n], [1, 2], [len(hubs), n]])
    if thr[0] > thr[1]:
        thr = [1, 1]
    return case(cid, T, mode="classes", targets=[EX + "A"], thr=thr, inverse=inverse, keepLess=rnd.random() < .7,
                allCompliant=rnd.random() < .5, report="mixed")


def fan_case(rnd, cid, thr=None):
    """shape-map shapes: a hub L0 whose nodes link, through one property per leaf, to the nodes of 2-4 leaf shapes L1..Lk; a leaf's
    only shared feature is held by m of its n nodes, so each leaf empties at its own threshold and several can go in the same
    clean-up round: the hub then holds consecutive constraints that refer to shapes that are gone"""
    k = rnd.randint(2, 4)
    per = rnd.randint(2, 4)
    hubs = [M.iri(EX + "h%d" % j) for j in range(per)]
    T, items = [], []
    for x in hubs:
        items.append({"label": EX + "shapes/L0", "labelSpelling": "bracket", "spelling": "bracket", "kind": "node", "node": list(x)})
    for i in range(1, k + 1):
        leaves = [M.iri(EX + "l%d_%d" % (i, j)) for j in range(per)]
        m = rnd.randint(0, per)
        for j, x in enumerate(leaves):
            items.append({"label": EX + "shapes/L%d" % i, "labelSpelling": "bracket", "spelling": "bracket", "kind": "node", "node": list(x)})
            if j < m:
                T.append((x, EX + "common%d" % i, M.lit("c")))
            elif rnd.random() < .5:
                T.append((x, EX + "odd%d_%d" % (i, j), M.lit("o")))
        for j, h in enumerate(hubs):
            T.append((h, EX + "to%d" % i, leaves[j % per]))
    if rnd.random() < .5:
        for h in hubs:
            T.append((h, EX + "name", M.lit("n")))
    if rnd.random() < .7:
        rnd.shuffle(T)
    return case(cid, T, mode="shapemap", items=items, thr=thr or rnd.choice([[1, 3], [1, 2], [51, 100], [2, 3], [3, 4], [1, 1]]),
                removeEmpty=rnd.random() < .9, nsDict=NSDICT, inverse=rnd.random() < .2)


def or_fan_case(rnd, cid):
    """disjunctions that lose an arm: hub nodes link through ONE property to nodes of 3-4 leaf shapes (shape map); some leaves keep a
    shared feature, the others have none and are removed as empty, so '@L1 OR @L2 OR @L3' is rewritten after the removal"""
    k = rnd.randint(3, 4)
    per = rnd.randint(2, 3)
    hubs = [M.iri(EX + "h%d" % j) for j in range(per)]
    T, items = [], []
    for x in hubs:
        items.append({"label": EX + "shapes/L0", "labelSpelling": "bracket", "spelling": "bracket", "kind": "node", "node": list(x)})
    empty = set(rnd.sample(range(1, k + 1), rnd.randint(1, k - 2)))
    for i in range(1, k + 1):
        leaves = [M.iri(EX + "l%d_%d" % (i, j)) for j in range(per)]
        for j, x in enumerate(leaves):
            items.append({"label": EX + "shapes/L%d" % i, "labelSpelling": "bracket", "spelling": "bracket", "kind": "node", "node": list(x)})
            if i not in empty:
                T.append((x, EX + "common%d" % i, M.lit("c")))
        for j, h in enumerate(hubs):
            T.append((h, EX + "to", leaves[j % per]))
    rnd.shuffle(T)
    return case(cid, T, mode="shapemap", items=items, thr=rnd.choice([[0, 1], [1, 2], [1, 1]]), removeEmpty=True, nsDict=NSDICT,
                disableOr=False, redundantOr=rnd.random() < .5, inverse=rnd.random() < .2, allCompliant=rnd.random() < .5)


def single_constraint_case(rnd, cid):
    """shape-map shapes over untyped nodes that have ONE property (no rdf:type line keeps it company): the shape's only constraint
    has a cardinality above one, a frequency below 100 % or both, so every rewriting option has something to rewrite in it; a
    second shape with two constraints stands next to it"""
    n = rnd.randint(2, 4)
    xs = [M.iri(EX + "x%d" % i) for i in range(n)]
    ys = [M.iri(EX + "y%d" % i) for i in range(rnd.randint(1, 3))]
    T, items = [], []
    lit_valued = rnd.random() < .5
    kk = rnd.choice([2, 2, 3])
    for i, x in enumerate(xs):
        items.append({"label": EX + "shapes/L0", "labelSpelling": "bracket", "spelling": "bracket", "kind": "node", "node": list(x)})
        if i > 0 and rnd.random() < .35:
            continue            # selected, without the feature: an object of somebody's triple only
        for j in range(kk if rnd.random() < .7 else rnd.randint(1, 3)):
            T.append((x, EX + "knows", M.lit("v%d" % j) if lit_valued else M.iri(EX + "z%d" % j)))
    for i, y in enumerate(ys):
        items.append({"label": EX + "shapes/L1", "labelSpelling": "bracket", "spelling": "bracket", "kind": "node", "node": list(y)})
        T.append((y, EX + "name", M.lit("n")))
        for x in rnd.sample(xs, rnd.randint(1, n)):
            T.append((y, EX + "sees", x))
    rnd.shuffle(T)
    return case(cid, T, mode="shapemap", items=items, nsDict=NSDICT, thr=rnd.choice([[0, 1], [0, 1], [1, 2]]), keepLess=rnd.random() < .5,
                report="mixed", comments=True)


def inverse_or_case(rnd, cid):
    """incoming links of one property from the nodes of two or three shape-map shapes: with inverse paths and disjunctions the
    target shape holds '^ p @LA OR @LB ...'; all source shapes but one have no feature shared by their nodes, so above some
    threshold they are removed as empty and the disjunction is left with a single arm"""
    nt_ = rnd.randint(2, 3)
    Ts = [M.iri(EX + "t%d" % i) for i in range(nt_)]
    k = rnd.randint(2, 3)
    T, items = [], []
    for x in Ts:
        items.append({"label": EX + "shapes/LT", "labelSpelling": "bracket", "spelling": "bracket", "kind": "node", "node": list(x)})
        T.append((x, EX + "title", M.lit("t")))
    for j in range(k):
        src = [M.iri(EX + "s%d_%d" % (j, i)) for i in range(2)]
        for i, x in enumerate(src):
            items.append({"label": EX + "shapes/L%d" % j, "labelSpelling": "bracket", "spelling": "bracket", "kind": "node", "node": list(x)})
            if j == 0:
                T.append((x, EX + "name", M.lit("n")))          # the surviving arm: its nodes share a feature
            else:
                T.append((x, EX + "odd%d_%d" % (j, i), M.lit("o")))
        for t_ in Ts:                                           # one node of every source shape points to every target
            T.append((src[0], EX + "p", t_))
        if rnd.random() < .5:
            T.append((src[1], EX + "p", Ts[0]))
    rnd.shuffle(T)
    return case(cid, T, mode="shapemap", items=items, nsDict=NSDICT, inverse=True, disableOr=False, redundantOr=rnd.random() < .5,
                removeEmpty=True, thr=rnd.choice([[0, 1], [1, 2], [3, 4], [1, 1]]), allCompliant=rnd.random() < .5)


def asym_link_case(rnd, cid):
    """two shape-map shapes T and S joined by a link that few nodes on either side take part in: one of the nt nodes of T points
    to one of the ns nodes of S. With inverse paths and a threshold between the two frequencies S has no feature left in either
    direction while T still refers to it"""
    nt_, ns_ = rnd.randint(2, 3), rnd.randint(3, 4)
    Ts = [M.iri(EX + "t%d" % i) for i in range(nt_)]
    Ss = [M.iri(EX + "s%d" % i) for i in range(ns_)]
    T, items = [], []
    for x in Ts:
        items.append({"label": EX + "shapes/LT", "labelSpelling": "bracket", "spelling": "bracket", "kind": "node", "node": list(x)})
        T.append((x, EX + "title", M.lit("t")))
    for i, x in enumerate(Ss):
        items.append({"label": EX + "shapes/LS", "labelSpelling": "bracket", "spelling": "bracket", "kind": "node", "node": list(x)})
        if rnd.random() < .6:
            T.append((x, EX + "odd%d" % i, M.lit("o")))
    for x in rnd.sample(Ts, rnd.randint(1, nt_ - 1)):
        T.append((x, EX + "p", Ss[0]))
    rnd.shuffle(T)
    return case(cid, T, mode="shapemap", items=items, nsDict=NSDICT, inverse=rnd.random() < .8, removeEmpty=rnd.random() < .9,
                thr=rnd.choice([[1, 2], [1, 2], [51, 100], [2, 5]]), report="mixed")


def tied_focus_case(rnd, cid):
    """a wildcard selector over a multi-valued property ({FOCUS p _} answers a node once per value) whose focus nodes each bring a
    constraint of their own: all those constraints are tied in frequency, so their order in the text follows the order of the nodes"""
    n = rnd.randint(4, 7)
    nodes = [M.iri(EX + "f%d" % i) for i in range(n)]
    T = []
    for i, x in enumerate(nodes):
        for o in rnd.sample([y for y in nodes if y != x], rnd.randint(2, 3)):
            T.append((x, EX + "knows", o))
        T.append((x, EX + "own%d" % i, M.lit("v")))
    rnd.shuffle(T)
    items = [{"label": EX + "shapes/L0", "labelSpelling": "bracket", "spelling": "bracket", "kind": "pattern", "ps": ["FOCUS", ""],
              "pp": EX + "knows", "po": ["ANY", ""], "syntax": "focus"}]
    return case(cid, T, mode="shapemap", items=items, nsDict=NSDICT, inverse=rnd.random() < .3, allCompliant=rnd.random() < .5)


def chain_case(rnd, cid):
    """shape-map shapes L0 -> L1 -> ... -> Ln linked by one property; the last shape has no feature shared by all its nodes, the
    middle ones only the link: with a threshold the removal of the last shape cascades backwards (remove_empty_shapes)"""
    n = rnd.randint(2, 4)
    per = rnd.randint(2, 3)
    T = []
    items = []
    nodes = [[M.iri(EX + "c%d_%d" % (i, j)) for j in range(per)] for i in range(n + 1)]
    for i in range(n + 1):
        for x in nodes[i]:
            items.append({"label": EX + "shapes/L%d" % i, "labelSpelling": "bracket", "spelling": "bracket", "kind": "node", "node": list(x)})
    for i in range(n):
        for j, x in enumerate(nodes[i]):
            T.append((x, EX + "next", nodes[i + 1][j % per]))
            if rnd.random() < .3:
                T.append((x, EX + "next", nodes[i + 1][(j + 1) % per]))
    for x in nodes[0]:
        T.append((x, EX + "name", M.lit("v")))
    for j, x in enumerate(nodes[n]):
        T.append((x, EX + "odd%d" % j, M.lit("w")))
    if rnd.random() < .4:
        for x in nodes[rnd.randint(1, n - 1)] if n > 1 else []:
            T.append((x, EX + "extra", M.lit("e")))
    rnd.shuffle(T)
    return case(cid, T, mode="shapemap", items=items, thr=rnd.choice([[1, 1], [1, 1], [2, 3], [51, 100]]), removeEmpty=rnd.random() < .85,
                nsDict=NSDICT, inverse=rnd.random() < .2)
