"""TLC runner: model checking runs (L1), batched trace validation (L3) and simulation dumps (L2)."""
import os
import re
import json
import shutil
import subprocess
import tempfile
import time
from concurrent.futures import ThreadPoolExecutor

SPEC_DIR = os.path.join(os.path.dirname(os.path.dirname(os.path.abspath(__file__))), "spec")
JAR = "/opt/veriftools/tla/tla2tools.jar:/opt/veriftools/tla/CommunityModules-deps.jar"


class TlcFailure(Exception):
    """TLC could not run the model (parse error, evaluation error, timeout): a machinery failure, never a verdict"""


def scratch(prefix="shexer-verif-"):
    return tempfile.mkdtemp(prefix=prefix)


def _cmd(module, cfg, workers, metadir, extra, heap, xss=None):
    gc = ["-XX:+UseSerialGC"] if workers == 1 else ["-XX:+UseParallelGC"]      # many single-worker monitors run side by side
    return ["java"] + gc + ["-Xmx%s" % heap] + (["-Xss%s" % xss] if xss else []) + ["-cp", JAR, "tlc2.TLC",
            "-workers", str(workers), "-metadir", metadir, "-noGenerateSpecTE", "-config", cfg] + list(extra) + [module]


_STATS = re.compile(r'(\d+) states generated, (\d+) distinct states found')


def parse_value_lines(out, tag):
    """lines printed by PrintT(<<"TAG", ...>>) -> list of the raw line strings"""
    return [l for l in out.split("\n") if l.startswith('<<"%s"' % tag)]


def run(module, cfg, workers=16, timeout=900, extra=(), env=None, heap="8g", cwd=None, keep=False, xss=None):
    """runs TLC in SPEC_DIR (or cwd); returns dict(out, states, distinct, ok, violated, wall)"""
    work = scratch()
    t0 = time.time()
    try:
        e = dict(os.environ)
        if env:
            e.update(env)
        p = subprocess.run(_cmd(module, cfg, workers, os.path.join(work, "meta"), extra, heap, xss),
                           cwd=cwd or SPEC_DIR, env=e, stdout=subprocess.PIPE, stderr=subprocess.STDOUT,
                           timeout=timeout, text=True)
        out = p.stdout
    except subprocess.TimeoutExpired as ex:
        out = (ex.stdout or b"").decode("utf8", "replace") if isinstance(ex.stdout, bytes) else (ex.stdout or "")
        raise TlcFailure("TLC timeout after %ss on %s/%s\n%s" % (timeout, module, cfg, out[-2000:]))
    finally:
        if not keep:
            shutil.rmtree(work, ignore_errors=True)
    res = {"out": out, "wall": time.time() - t0, "rc": p.returncode}
    m = None
    for m in _STATS.finditer(out):
        pass
    res["states"] = int(m.group(1)) if m else 0
    res["distinct"] = int(m.group(2)) if m else 0
    res["violated"] = re.findall(r'Invariant (\S+) is violated', out) + re.findall(r'Action property (\S+) is violated', out) \
        + (["Temporal"] if "Temporal properties were violated" in out else []) \
        + (["Deadlock"] if "Deadlock reached" in out else [])
    res["finished"] = "Model checking completed" in out or "Finished in" in out
    hard = ("Parsing or semantic analysis failed" in out or "TLC threw an unexpected exception" in out
            or "Error: " in out and not res["violated"] and "Model checking completed. No error" not in out)
    res["error"] = bool(hard)
    return res


def check_model(module, cfg, **kw):
    """L1: returns result; raises TlcFailure on machinery problems"""
    r = run(module, cfg, **kw)
    if r["error"] or (not r["finished"] and not r["violated"]):
        raise TlcFailure("TLC failed on %s/%s:\n%s" % (module, cfg, r["out"][-3000:]))
    return r


# ---------------------------------------------------------------------------------------------------
_VERDICT = re.compile(r'^<<"(VERDICT|INFO)", (.*)>>$')


def parse_tla_value(s):
    """tiny reader for the TLA+ values TLC prints: strings, integers, booleans, <<tuples>>, {sets}, [records]"""
    pos = [0]

    def ws():
        while pos[0] < len(s) and s[pos[0]] in " \n\t":
            pos[0] += 1

    def val():
        ws()
        c = s[pos[0]]
        if c == '"':
            j = pos[0] + 1
            buf = []
            while s[j] != '"':
                if s[j] == "\\":
                    j += 1
                buf.append(s[j])
                j += 1
            pos[0] = j + 1
            return "".join(buf)
        if s.startswith("<<", pos[0]):
            pos[0] += 2
            return seq(">>")
        if c == "{":
            pos[0] += 1
            return seq("}")
        if c == "[":
            pos[0] += 1
            rec = {}
            ws()
            if s[pos[0]] == "]":
                pos[0] += 1
                return rec
            while True:
                ws()
                m = re.compile(r'([A-Za-z_][A-Za-z0-9_]*)\s*\|->').match(s, pos[0])
                pos[0] = m.end()
                rec[m.group(1)] = val()
                ws()
                if s[pos[0]] == ",":
                    pos[0] += 1
                    continue
                if s[pos[0]] == "]":
                    pos[0] += 1
                    return rec
                raise ValueError("record? at %d in %r" % (pos[0], s[:80]))
        m = re.compile(r'-?\d+').match(s, pos[0])
        if m:
            pos[0] = m.end()
            return int(m.group(0))
        for w, v in (("TRUE", True), ("FALSE", False)):
            if s.startswith(w, pos[0]):
                pos[0] += len(w)
                return v
        raise ValueError("value? at %d in %r" % (pos[0], s[pos[0]:pos[0] + 40]))

    def seq(close):
        items = []
        ws()
        if s.startswith(close, pos[0]):
            pos[0] += len(close)
            return items
        while True:
            items.append(val())
            ws()
            if s[pos[0]] == ",":
                pos[0] += 1
                continue
            if s.startswith(close, pos[0]):
                pos[0] += len(close)
                return items
            raise ValueError("sequence? at %d in %r" % (pos[0], s[:80]))
    v = val()
    return v


def validate_batch(module, cfg, traces, procs=8, chunk=None, timeout=1200, heap="3g", xss=None):
    """L3: judge every trace with the monitor module; returns (verdicts: id -> parsed record, stats)

    The monitor prints one line <<"VERDICT", id, {clauses}, info>> per trace; a trace without a line means the
    monitor did not judge it: machinery failure."""
    if not traces:
        return {}, {"states": 0, "wall": 0.0}
    n = len(traces)
    procs = max(1, min(procs, (n + 39) // 40))
    chunk = chunk or (n + procs - 1) // procs
    work = scratch()
    t0 = time.time()
    try:
        files = []
        for i in range(0, n, chunk):
            f = os.path.join(work, "batch%d.json" % (i // chunk))
            with open(f, "w") as fh:
                json.dump(traces[i:i + chunk], fh)
            files.append(f)

        def one(f):
            return run(module, cfg, workers=1, timeout=timeout, env={"TRACE_FILE": f}, heap=heap, xss=xss)
        with ThreadPoolExecutor(len(files)) as ex:
            results = list(ex.map(one, files))
    finally:
        shutil.rmtree(work, ignore_errors=True)
    verdicts = {}
    states = 0
    for r in results:
        if r["error"] or r["violated"] or not r["finished"]:
            raise TlcFailure("monitor %s failed:\n%s" % (module, r["out"][-3000:]))
        states += r["distinct"]
        for m in re.finditer(r'<<\s*"VERDICT"', r["out"]):
            v = parse_tla_value(r["out"][m.start():])
            verdicts[v[1]] = {"clauses": sorted(v[2]), "info": v[3] if len(v) > 3 else {}}
    missing = [t["id"] for t in traces if t["id"] not in verdicts]
    if missing:
        raise TlcFailure("monitor %s judged %d of %d traces; first unjudged: %r\n%s"
                         % (module, len(verdicts), n, missing[:3], results[0]["out"][-1500:]))
    return verdicts, {"states": states, "wall": time.time() - t0}
