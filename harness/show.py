"""developer tool: print a replay / case file, run it through the real code and show the output and the verdict"""
import sys, os, json
sys.path.insert(0, os.path.dirname(os.path.dirname(os.path.abspath(__file__))))
os.environ.setdefault("SHEXER_VERIF", "1")
from harness import runner, rdfmodel as M, pipeline, common
d = json.load(open(sys.argv[1]))
case = d.get("case", d)
print("clause:", d.get("clause"), d.get("detail"))
cfg = case["cfg"]
print({k: v for k, v in cfg.items() if v != runner.default_cfg().get(k)})
print(M.to_nt(M.from_json_graph(case["graph"])))
if cfg["mode"] in ("shapemap", "mixed"):
    print("SHAPE MAP:\n" + runner.shape_map_text(cfg))
r = runner.run_case(case, want_text=True)
print(r["status"], r["exc"], r["frame"])
print(r.get("text"))
print("tracked:", r.get("tracked"))
v, _ = pipeline.judge([case], [r], pipeline.ALL_WANT + ["drift"])
print(v)
