"""C06 / C07: the hand-written streaming readers against spec/NtReader.tla and spec/TtlReader.tla."""
import os
import itertools
import random
from harness import common, tlc, runner

# ------------------------------------------------------------------------------------------------ C06
ALPHABET = ["EQ", "EB", "HH", "SD", "XS", "GE", "UE", "NA", "UQ", "UB", "@", "#", "<", ">", "7", "_", "%", "a", "LS"]
EXPAND = {"EQ": '\\"', "EB": "\\\\", "HH": "^^", "SD": " .", "XS": "xsd:", "GE": "geo:", "UE": "\\u00E9", "NA": "é", "UQ": "\\u0022", "UB": "\\u005C", "LS": "\u2028"}
IRIS = {"i1": "http://a.b/c#d", "i2": "urn:x:y_z@w", "i3": "http://a.b/p_q", "dt": "http://u.v/dt#t"}
BNODES = {"b1": "_:b1", "b2": "_:x_2", "b3": "_:n.1.z"}
SUFFIX = {"none": "", "lang": "@en", "langreg": "@en-GB", "langnum": "@es-419", "dt": "^^<%s>" % IRIS["dt"],
          # datatype IRIs whose scheme is spelled like a prefix the library knows by heart
          "dtgeo": "^^<geo:wkt>", "dtxsd": "^^<xsd:int>", "dtdt": "^^<dt:sec>", "dtrdf": "^^<rdf:HTML>",
          "dtat": "^^<http://u@v.w/dt@v2>"}      # '@' inside the datatype IRI
SEPS = {"sp": " ", "tab": "\t", "sp2": "  "}


def nt_term(t):
    if t["kind"] == "iri":
        return "<%s>" % IRIS[t["id"]]
    if t["kind"] == "bnode":
        return BNODES[t["id"]]
    return '"' + "".join(EXPAND.get(s, s) for s in t["content"]) + '"' + SUFFIX[t["suffix"]]


def nt_line(x):
    sep = SEPS[x["sep"]]
    return (nt_term(x["s"]) + sep + "<%s>" % IRIS[x["p"]] + sep + nt_term(x["o"]) + ("." if x["glued"] else " .")
            + (' # c "<.' if x["comment"] else ""))


def node(kind, ident):
    return {"kind": kind, "id": ident, "content": [], "suffix": "none"}


def lit(content, suffix):
    return {"kind": "lit", "id": "", "content": list(content), "suffix": suffix}


def nt_statements(max_len, layouts="all", rnd=None, sample=None):
    subjects = [node("iri", "i1"), node("iri", "i2"), node("bnode", "b1"), node("bnode", "b3")] if layouts == "all" else [node("iri", "i1")]
    seps = ["sp", "tab", "sp2"] if layouts == "all" else ["sp"]
    comments = [False, True] if layouts == "all" else [False]
    objs = [node("iri", "i2"), node("bnode", "b2"), node("bnode", "b3")]
    for n in range(max_len + 1):
        for content in itertools.product(ALPHABET, repeat=n):
            for sf in SUFFIX:
                objs.append(lit(content, sf))
    out = []
    i = 0
    for o in objs:
        for s in subjects:
            for sep in seps:
                for g in (False, True):
                    for c in comments:
                        out.append({"id": "nt%d" % i, "x": {"s": s, "p": "i3", "o": o, "sep": sep, "glued": g, "comment": c}})
                        i += 1
    if sample is not None and len(out) > sample:
        out = rnd.sample(out, sample)
    return out


def random_nt_statements(rnd, n, max_len=12):
    out = []
    for i in range(n):
        content = [rnd.choice(ALPHABET) for _ in range(rnd.randint(3, max_len))]
        o = lit(content, rnd.choice(list(SUFFIX)))
        out.append({"id": "ntr%d" % i, "x": {"s": rnd.choice([node("iri", "i1"), node("iri", "i2"), node("bnode", "b1"), node("bnode", "b3")]), "p": "i3",
                                             "o": o, "sep": rnd.choice(list(SEPS)), "glued": rnd.random() < .5,
                                             "comment": rnd.random() < .3}})
    return out


def _read_nt(payload):
    from shexer.io.graph.yielder.nt_triples_yielder import NtTriplesYielder
    line = nt_line(payload["x"])

    def go():
        y = NtTriplesYielder(raw_graph=line + "\n")
        triples = []
        for s, p, o in y.yield_triples():
            triples.append([_term(s), str(p), _term(o)])
        return triples, y.error_triples
    st, val, exc, frame = runner.call_guarded(go, timeout=3)
    res = {"id": payload["id"], "x": payload["x"], "line": ["LS" if ch == "\u2028" else ch for ch in line], "status": st, "exc": exc, "frame": frame,
           "triples": [], "errors": 0}           # (the specification names the Unicode line separator "LS")
    if st == "ok":
        res["triples"], res["errors"] = val
    return res


def _term(t):
    et = getattr(t, "elem_type", None)
    if et in ("IRI", "BNode"):
        return [et, t.iri]
    return [str(et), str(t)]


def judge_nt(out, stmts, label):
    results = runner.run_many(_read_nt, stmts, chunk=200)
    for r in results:
        if r.get("status") == "harness-error":
            raise common.Machinery("harness error: %s\n%s" % (r.get("exc"), r.get("trace", "")))
    traces = [{"id": r["id"], "x": r["x"], "line": r["line"], "status": r["status"], "triples": r["triples"], "errors": r["errors"]}
              for r in results]
    verdicts, stats = tlc.validate_batch("Trace_NtReader", "Trace_NtReader.cfg", traces, procs=12)
    out.traces += len(traces)
    out.evaluations += len(traces)
    out.notes["monitor_states"] = out.notes.get("monitor_states", 0) + stats["states"]
    drift = 0
    for r in results:
        v = verdicts[r["id"]]
        if r["x"]["o"]["kind"] == "lit" and r["x"]["o"]["content"]:
            out.nontrivial.add(r["id"])
        for c in v["clauses"]:
            if c.startswith("MACHINERY"):
                raise common.Machinery("generator / renderer / grammar disagree on %r (%s)" % ("".join(r["line"]).replace("LS", "\u2028"), c))
            if c.startswith("drift"):
                drift += 1
                continue
        case = {"kind": "nt", "x": r["x"], "line": "".join(r["line"]).replace("LS", "\u2028")}
        detail = "%s line=%r yielded=%r errors=%d %s" % (label, "".join(r["line"]), r["triples"], r["errors"], r["exc"])
        out.judge_clauses([c for c in v["clauses"] if c.startswith("C06")], case, lambda c: True, detail=detail)
        out.sample({"line": "".join(r["line"]), "yielded": r["triples"], "errors": r["errors"], "clauses": v["clauses"]})
    out.notes["drift_vs_transliteration"] = out.notes.get("drift_vs_transliteration", 0) + drift


EOLS = {"LF": "\n", "CRLF": "\r\n", "CR": "\r"}


def _read_nt_doc(payload):
    """a document of several statements, one per line, through the raw-string / plain file / gz / xz carriers"""
    import gzip
    import lzma
    import shutil
    import tempfile
    from shexer.io.graph.yielder.nt_triples_yielder import NtTriplesYielder
    text = "".join(nt_line(x) + EOLS[payload["eol"]] for x in payload["xs"])
    if payload.get("bom"):        # "UTF-8 with signature": the byte order mark belongs to no statement
        text = "\ufeff" + text
    d = tempfile.mkdtemp(prefix="shexer-verif-ntdoc-")
    try:
        ch = payload["channel"]
        if ch == "raw":
            kw = {"raw_graph": text}
        else:
            path = os.path.join(d, "doc.nt" + {"file": "", "gz": ".gz", "xz": ".xz"}[ch])
            data = text.encode("utf8")
            if ch == "file":
                with open(path, "wb") as fh:
                    fh.write(data)
            elif ch == "gz":
                with gzip.open(path, "wb") as fh:
                    fh.write(data)
            else:
                with lzma.open(path, "wb") as fh:
                    fh.write(data)
            kw = {"source_file": path}
            if ch != "file":
                kw["compression_mode"] = ch

        def go():
            y = NtTriplesYielder(**kw)
            return [[_term(s), str(p), _term(o)] for s, p, o in y.yield_triples()], y.error_triples
        st, val, exc, frame = runner.call_guarded(go, timeout=5)
    finally:
        shutil.rmtree(d, ignore_errors=True)
    res = {"id": payload["id"], "xs": payload["xs"], "eol": payload["eol"], "channel": payload["channel"], "status": st, "exc": exc,
           "frame": frame, "triples": [], "errors": 0}
    if st == "ok":
        res["triples"], res["errors"] = val
    return res


def judge_nt_docs(out, rnd, n):
    docs = []
    for i in range(n):
        xs = [s["x"] for s in random_nt_statements(rnd, rnd.randint(2, 5), max_len=5)]
        for x in xs:
            x["comment"] = False
        docs.append({"id": "ntd%d" % i, "xs": xs, "eol": rnd.choice(sorted(EOLS)), "channel": rnd.choice(["raw", "file", "gz", "xz"]),
                     "bom": rnd.random() < .15})
    results = runner.run_many(_read_nt_doc, docs, chunk=25)
    for r in results:
        if r.get("status") == "harness-error":
            raise common.Machinery("harness error: %s\n%s" % (r.get("exc"), r.get("trace", "")))
    traces = [{"id": r["id"], "xs": r["xs"], "eol": r["eol"], "status": r["status"], "triples": r["triples"], "errors": r["errors"]} for r in results]
    verdicts, stats = tlc.validate_batch("Trace_NtDoc", "Trace_NtDoc.cfg", traces, procs=8)
    out.traces += len(traces)
    out.evaluations += len(traces)
    chans = {}
    for r in results:
        v = verdicts[r["id"]]
        key = "%s/%s" % (r["channel"], r["eol"])
        chans[key] = chans.get(key, 0) + 1
        if any(c.startswith("MACHINERY") for c in v["clauses"]):
            raise common.Machinery("C06 document %s: %s" % (r["id"], v["clauses"]))
        out.judge_clauses(v["clauses"], {"kind": "ntdoc", "xs": r["xs"], "eol": r["eol"], "channel": r["channel"]}, lambda c: True,
                          detail="document of %d statements, line end %s, carrier %s: yielded %d, errors %d %s"
                                 % (len(r["xs"]), r["eol"], r["channel"], len(r["triples"]), r["errors"], r["exc"]))
    out.notes["documents_by_carrier_and_line_end"] = chans


CHAR = {"CR": "\r", "LF": "\n", "LS": "\u2028"}


def _read_lines(payload):
    """a text through one of the real line readers -> the lines it hands on (terminators and surrounding blanks removed)"""
    import gzip
    import lzma
    import shutil
    import tempfile
    import zipfile
    text = "".join(CHAR.get(ch, ch) for ch in payload["text"])
    d = tempfile.mkdtemp(prefix="shexer-verif-lines-")
    try:
        def go():
            r = payload["reader"]
            if r == "raw":
                from shexer.io.line_reader.raw_string_line_reader import RawStringLineReader
                rd = RawStringLineReader(raw_string=text)
            else:
                path = os.path.join(d, "t." + r)
                data = text.encode("utf8")
                if r == "file":
                    with open(path, "wb") as fh:
                        fh.write(data)
                    from shexer.io.line_reader.file_line_reader import FileLineReader
                    rd = FileLineReader(source_file=path)
                elif r == "gz":
                    with gzip.open(path, "wb") as fh:
                        fh.write(data)
                    from shexer.io.line_reader.gz_line_reader import GzFileLineReader
                    rd = GzFileLineReader(gz_file=path)
                elif r == "xz":
                    with lzma.open(path, "wb") as fh:
                        fh.write(data)
                    from shexer.io.line_reader.xz_line_reader import XzFileLineReader
                    rd = XzFileLineReader(xz_file=path)
                else:
                    with zipfile.ZipFile(path, "w") as z:
                        z.writestr("m.nt", data)
                    from shexer.io.line_reader.zip_file_line_reader import ZipFileLineReader
                    za = zipfile.ZipFile(path)
                    rd = ZipFileLineReader(zip_archive=za, zip_target="m.nt")
            return [l for l in rd.read_lines()]
        st, val, exc, frame = runner.call_guarded(go, timeout=5)
    finally:
        shutil.rmtree(d, ignore_errors=True)
    lines = []
    if st == "ok":
        for l in val:
            l = l.strip()                  # what the statement scanners do with a line (str.strip: every white space, U+2028 too)
            if l:
                lines.append(["LS" if ch == "\u2028" else ch for ch in l])
    return {"id": payload["id"], "text": payload["text"], "reader": payload["reader"], "status": st, "exc": exc, "lines": lines}


def judge_line_readers(out, tier):
    """leg L2 for the line readers: every text TLC enumerates (spec/MC_LineReader.tla) through the five real readers"""
    n = 4 if tier == "quick" else 5
    for cfg, must_fail in (("MC_LineReader_spec.cfg", False), ("MC_LineReader_lfonly.cfg", True), ("MC_LineReader_splitlines.cfg", True)):
        r = tlc.check_model("MC_LineReader", cfg, workers=4, timeout=600)
        if not must_fail:
            out.add_l1("MC_LineReader/" + cfg, r)
            for inv in r["violated"]:
                out.violation("L1.%s" % inv, {"model": cfg}, r["out"][-1200:])
        elif not r["violated"]:          # the models of the two known wrong splitters must be rejected: otherwise the model has no teeth
            raise common.Machinery("%s was expected to be violated (the model no longer tells the wrong line splitters apart)" % cfg)
    work = tlc.scratch()
    try:
        cfgp = os.path.join(tlc.SPEC_DIR, "MC_LineReader_dump.cfg")
        import subprocess
        with open(os.path.join(work, "dump.cfg"), "w") as fh:
            fh.write("SPECIFICATION Spec\nCONSTANTS\n  N = %d\nINVARIANT Dump\n" % n)
        p = subprocess.run(["java", "-XX:+UseSerialGC", "-Xmx3g", "-cp", tlc.JAR, "tlc2.TLC", "-workers", "1", "-metadir", os.path.join(work, "meta"),
                            "-noGenerateSpecTE", "-config", os.path.join(work, "dump.cfg"), "MC_LineReader"], cwd=tlc.SPEC_DIR,
                           stdout=subprocess.PIPE, stderr=subprocess.STDOUT, text=True, timeout=900)
    finally:
        import shutil
        shutil.rmtree(work, ignore_errors=True)
    import re
    texts = []
    for m in re.finditer(r'<<\s*"TEXT"', p.stdout):
        v = tlc.parse_tla_value(p.stdout[m.start():])
        texts.append(list(v[1]))
    if len(texts) < 1000:
        raise tlc.TlcFailure("MC_LineReader dumped %d texts:\n%s" % (len(texts), p.stdout[-1200:]))
    payloads = [{"id": "lr%d.%s" % (i, rd), "text": t, "reader": rd} for i, t in enumerate(texts) for rd in ("raw", "file", "gz", "xz", "zip")]
    results = runner.run_many(_read_lines, payloads, chunk=100)
    for r in results:
        if r.get("status") == "harness-error":
            raise common.Machinery("harness error: %s\n%s" % (r.get("exc"), r.get("trace", "")))
    traces = [{"id": r["id"], "text": r["text"], "reader": r["reader"], "status": r["status"], "lines": r["lines"]} for r in results]
    verdicts, stats = tlc.validate_batch("Trace_LineReader", "Trace_LineReader.cfg", traces, procs=10)
    out.traces += len(traces)
    out.evaluations += len(traces)
    out.notes["line_reader_texts"] = len(texts)
    for r in results:
        v = verdicts[r["id"]]
        out.judge_clauses(v["clauses"], {"kind": "lines", "text": r["text"], "reader": r["reader"]}, lambda c: True,
                          detail="text %r through the %s reader: lines %r %s" % ("".join(CHAR.get(ch, ch) for ch in r["text"]), r["reader"],
                                                                                 ["".join(l) for l in r["lines"]], r["exc"]))


def check_c06(out, tier):
    rnd = random.Random(common.seed() + 6)
    for cfg in (["MC_C06_quick.cfg"] if tier == "quick" else ["MC_C06_mid.cfg", "MC_C06_thorough.cfg"]):
        r = tlc.check_model("MC_NtReader", cfg, timeout=3000)
        out.add_l1(cfg, r)
        for inv in r["violated"]:
            out.violation("L1.%s" % inv, {"model": cfg}, "design-level counterexample (spec/MC_NtReader, %s):\n%s" % (cfg, r["out"][-1500:]))
    if tier == "quick":
        judge_nt(out, nt_statements(2, "all", rnd, sample=6000), "exhaustive L<=2 (sampled layouts)")
        judge_nt(out, random_nt_statements(rnd, 1500), "random L<=12")
        out.exhaustive = False
    else:
        judge_nt(out, nt_statements(2, "all"), "exhaustive L<=2, all layouts")
        judge_nt(out, nt_statements(3, "core"), "exhaustive L<=3, core layout")
        judge_nt(out, random_nt_statements(rnd, 20000), "random L<=12")
    judge_nt_docs(out, rnd, 240 if tier == "quick" else 3000)
    judge_line_readers(out, tier)
    # literal typing: every (lexical class, declared kind) as a quoted N-Triples / TSV literal through the whole pipeline
    from harness import typing_leg
    typing_leg.leg(out, "C06", ["nt", "tsv_spo"])
    return ("single-line N-Triples statements: subject in {2 IRIs with '#','@','_',':' ; blank node} x object in {IRI, blank "
            "node, literal whose content is a word over the 16-symbol adversarial alphabet (escaped quote, escaped backslash, "
            "'@', '^^', '#', ' .', '<', '>', 'xsd:', 'geo:', digit, '_', non-ASCII, \\uXXXX, '%', 'a')} x suffix {none, @en, "
            "@en-GB, ^^<iri>} x separator {blank, tab, two blanks} x glued final dot x trailing comment; non-trivial = literal "
            "with non-empty content; plus documents of 2-5 such statements with line ends LF / CR LF / CR through the raw-string, file, gz and xz carriers")


def replay(prop, d):
    out = common.Outcome(prop, "quick")
    case = d["case"]
    if case.get("kind") == "nt":
        judge_nt(out, [{"id": "replay", "x": case["x"]}], "replay")
    elif case.get("kind") == "ntdoc":
        r = _read_nt_doc({"id": "replay", "xs": case["xs"], "eol": case["eol"], "channel": case["channel"]})
        t = {"id": "replay", "xs": r["xs"], "eol": r["eol"], "status": r["status"], "triples": r["triples"], "errors": r["errors"]}
        verdicts, _st = tlc.validate_batch("Trace_NtDoc", "Trace_NtDoc.cfg", [t], procs=1)
        out.traces += 1
        out.judge_clauses(verdicts["replay"]["clauses"], case, lambda c: True, detail="replay")
    elif case.get("kind") == "ttl":
        judge_ttl(out, [{"id": "replay", "doc": case["doc"]}], "replay")
    return common.finish(out, rule="replay")


REGISTRY = {"C06": check_c06}


# ------------------------------------------------------------------------------------------------ C07
TOK_TEXT = {"s.pn": "ex:a", "s.abs": "<http://x.org/s>", "s.rel": "<r1>", "s.bn": "_:b1",
            "p.pn": "ex:p", "p.a": "a", "p.abs": "<http://x.org/q>", "p.type": "rdf:type",
            "o.pn": "ex:b", "o.abs": "<http://x.org/o#f>", "o.rel": "<r2>", "o.bn": "_:b2", "o.int": "57", "o.pint": "+8", "o.nint": "-30", "o.dot": "rel:x",
            "o.str": '"x y"', "o.xsd": '"5"^^xsd:int', "o.dti": '"v"^^<http://x.org/dt>', "o.dtp": '"v"^^ex:dt', "o.dtg": '"4"^^geo:deg',
            "o.lang": '"hola"@es', "o.spec": '"a # b ; c , d . e"', "o.esc": '"q\\"u\\\\"', "o.cls": "ex:C",
            "o.https": "<https://s.org/x>", "s.https": "<https://s.org/y#z>", "@re": "@prefix ex: <http://ex2.org/> .",
            "s.bs": "base:s1", "p.bs": "prefixes:p1", "o.bs": "base:o1"}
SUBJ_TOKS = ["s.pn", "s.abs", "s.rel", "s.bn", "s.https", "s.bs"]
PRED_TOKS = ["p.pn", "p.a", "p.abs", "p.type", "p.bs"]
OBJ_TOKS = ["o.pn", "o.abs", "o.rel", "o.bn", "o.int", "o.pint", "o.nint", "o.dot", "o.str", "o.xsd", "o.dti", "o.dtp", "o.dtg", "o.bs", "o.lang", "o.spec", "o.esc", "o.cls", "o.https"]
GAPS = ["sp", "sp2", "tab", "nl", "nlsp", "cmt", "tcmt", "cline"]
HEADER = ["@prefix ex: <http://ex.org/> .", "@prefix xsd: <http://www.w3.org/2001/XMLSchema#> .",
          "@prefix rdf: <http://www.w3.org/1999/02/22-rdf-syntax-ns#> .", "@prefix geo: <http://www.w3.org/2003/01/geo/wgs84_pos#> .",
          "@prefix base: <http://bb.org/> .", "@prefix prefixes: <http://pp.org/> .", "@prefix rel: <http://r.org/v1.> .",
          "@base <http://b.org/d/> ."]
COMMENT_TAIL = ' # c " .'
TAB_COMMENT_TAIL = "\t# c ;"
COMMENT_LINE = "# line ;"


def ttl_lines(toks, gaps):
    lines, cur = [], ""
    for t, g in zip(toks, gaps):
        line = cur + TOK_TEXT.get(t, t)
        if g == "sp":
            cur = line + " "
        elif g == "sp2":
            cur = line + "  "
        elif g == "tab":
            cur = line + "\t"
        elif g == "nl":
            lines.append(line)
            cur = ""
        elif g == "nlsp":
            lines.append(line)
            cur = "  "
        elif g == "cmt":
            lines.append(line + COMMENT_TAIL)
            cur = ""
        elif g == "tcmt":
            lines.append(line + TAB_COMMENT_TAIL)
            cur = ""
        elif g == "cline":
            lines.append(line)
            lines.append(COMMENT_LINE)
            cur = ""
    if cur:
        lines.append(cur)
    return lines


def random_ttl_doc(rnd, max_triples=8, gaps=GAPS, obj_toks=None):
    obj_toks = obj_toks or [t for t in OBJ_TOKS if t != "o.cls"]
    toks = []
    n = 0
    rebound = False
    while n < max_triples and (n == 0 or rnd.random() < .8):
        toks.append(rnd.choice(SUBJ_TOKS))
        while True:
            p = rnd.choice(PRED_TOKS)
            toks.append(p)
            while True:
                toks.append("o.cls" if p in ("p.a", "p.type") and rnd.random() < .7 else rnd.choice(obj_toks))
                n += 1
                if n < max_triples and rnd.random() < .3:
                    toks.append(",")
                    continue
                break
            if n < max_triples and rnd.random() < .4:
                toks.append(";")
                continue
            break
        toks.append(".")
        if not rebound and n < max_triples and rnd.random() < .12:
            toks.append("@re")          # a directive in the middle of the document re-binds the label ex:
            rebound = True
    g = [rnd.choice(gaps) if rnd.random() < .6 else "sp" for _ in toks]
    g[-1] = "nl"
    for j, t in enumerate(toks):        # a directive stands on a line of its own
        if t == "@re":
            g[j] = rnd.choice(["nl", "cline"]) if "cline" in gaps else "nl"
            g[j - 1] = rnd.choice(["nl", "cline", "cmt"]) if "cline" in gaps else "nl"
    return toks, g


def skeleton(of, sf):
    p2 = {"s.pn": "p.a", "s.abs": "p.abs", "s.rel": "p.type"}.get(sf, "p.pn")
    s2 = {"s.pn": "s.bn", "s.abs": "s.rel", "s.rel": "s.pn", "s.https": "s.https"}.get(sf, "s.abs")
    return [sf, "p.pn", of, ";", p2, "o.cls" if p2 in ("p.a", "p.type") else of, ",", "o.pn", ".", s2, "p.abs", of, "."]


def _read_ttl(payload):
    from shexer.io.graph.yielder.big_ttl_triples_yielder import BigTtlTriplesYielder
    lines = HEADER + ttl_lines(payload["toks"], payload["gaps"])
    text = "\n".join(lines) + "\n"

    def go():
        y = BigTtlTriplesYielder(raw_graph=text)
        k = payload.get("abandonAfter")
        if k is not None:
            # a consumer that stops early (a peek, a cap, an error of its own): the reader object is then asked again - the second
            # pass is the document, whatever state the first one was left in
            g = y.yield_triples()
            for _ in range(k):
                if next(g, None) is None:
                    break
            g.close()
        return [[_term(s), str(p), _term(o)] for s, p, o in y.yield_triples()]
    st, val, exc, frame = runner.call_guarded(go, timeout=3)
    return {"id": payload["id"], "toks": payload["toks"], "gaps": payload["gaps"], "lines": [list(l) for l in lines[len(HEADER):]],
            "status": st, "exc": exc, "frame": frame, "triples": val if st == "ok" else []}


def judge_ttl(out, docs, label):
    results = runner.run_many(_read_ttl, docs, chunk=100)
    for r in results:
        if r.get("status") == "harness-error":
            raise common.Machinery("harness error: %s\n%s" % (r.get("exc"), r.get("trace", "")))
    traces = [{"id": r["id"], "toks": r["toks"], "gaps": r["gaps"], "lines": r["lines"], "status": r["status"], "triples": r["triples"]}
              for r in results]
    verdicts, stats = tlc.validate_batch("Trace_TtlReader", "Trace_TtlReader.cfg", traces, procs=14, xss="16m")
    out.traces += len(traces)
    out.evaluations += len(traces)
    out.notes["monitor_states"] = out.notes.get("monitor_states", 0) + stats["states"]
    drift = 0
    for r in results:
        v = verdicts[r["id"]]
        if any(g != "sp" for g in r["gaps"][:-1]):
            out.nontrivial.add(repr((r["toks"], r["gaps"])))
        text = "\n".join("".join(l) for l in r["lines"])
        for c in v["clauses"]:
            if c.startswith("MACHINERY"):
                raise common.Machinery("generator / renderer disagree on %r (%s)" % (text, c))
            if c.startswith("drift"):
                drift += 1
        case = {"kind": "ttl", "doc": {"toks": r["toks"], "gaps": r["gaps"]}}
        detail = "%s doc=%r yielded=%d triples %s %s" % (label, text, len(r["triples"]), r["status"], r["exc"])
        out.judge_clauses([c for c in v["clauses"] if c.startswith("C07")], case, lambda c: True, detail=detail)
        out.sample({"document": text, "yielded": r["triples"][:3], "clauses": v["clauses"]})
    out.notes["drift_vs_transliteration"] = out.notes.get("drift_vs_transliteration", 0) + drift


def layouts(toks, gapset, rnd=None, sample=None):
    n = len(toks)
    alls = itertools.product(gapset, repeat=n - 1)
    if sample is not None:
        total = len(gapset) ** (n - 1)
        if total > sample:
            return [[rnd.choice(gapset) for _ in range(n - 1)] + ["nl"] for _ in range(sample)]
    return [list(g) + ["nl"] for g in alls]


def check_c07(out, tier):
    rnd = random.Random(common.seed() + 7)
    for cfg in (["MC_C07_quick.cfg"] if tier == "quick" else ["MC_C07_thorough.cfg", "MC_C07_thorough2.cfg", "MC_C07_thorough3.cfg"]):
        r = tlc.check_model("MC_TtlReader", cfg, timeout=3000, xss="16m")
        out.add_l1(cfg, r)
        for inv in r["violated"]:
            out.violation("L1.%s" % inv, {"model": cfg}, "design-level counterexample (spec/MC_TtlReader, %s):\n%s" % (cfg, r["out"][-1500:]))
    docs = []
    i = 0
    forms = [("o.pn", "s.pn"), ("o.str", "s.rel"), ("o.dtp", "s.abs"), ("o.lang", "s.bn"), ("o.spec", "s.pn"), ("o.int", "s.rel"),
             ("o.esc", "s.abs"), ("o.xsd", "s.pn"), ("o.dti", "s.bn"), ("o.bn", "s.rel"), ("o.abs", "s.pn"), ("o.rel", "s.abs"),
             ("o.https", "s.https"), ("o.dtg", "s.pn"), ("o.bs", "s.bs"), ("o.pint", "s.pn"), ("o.nint", "s.abs"), ("o.dot", "s.rel")]
    per = 160 if tier == "quick" else 4096
    for of, sf in forms:
        toks = skeleton(of, sf)
        for g in layouts(toks, ["sp", "nl"], rnd, sample=per):
            docs.append({"id": "ttl%d" % i, "toks": toks, "gaps": g})
            i += 1
        for g in layouts(toks, GAPS, rnd, sample=per // 2):
            docs.append({"id": "ttl%d" % i, "toks": toks, "gaps": g})
            i += 1
    for _ in range(700 if tier == "quick" else 12000):
        toks, g = random_ttl_doc(rnd)
        docs.append({"id": "ttl%d" % i, "toks": toks, "gaps": g})
        i += 1
    judge_ttl(out, docs, "layouts")
    # the same reader object asked twice, the first pass abandoned after k triples
    again = []
    for j in range(120 if tier == "quick" else 1500):
        toks, g = random_ttl_doc(rnd)
        again.append({"id": "ttlr%d" % j, "toks": toks, "gaps": g, "abandonAfter": rnd.choice([0, 1, 1, 2, 3])})
    judge_ttl(out, again, "second pass of a reader whose first pass was abandoned")
    # literal typing: quoted literals of every (lexical class, declared kind) and the integer shorthand through the whole pipeline
    from harness import typing_leg
    typing_leg.leg(out, "C07", ["turtle_iter"])
    return ("Turtle documents of the reader's dialect: token sequences S P O (, O)* (; P O ...)* . over a vocabulary covering "
            "prefixed / absolute / relative-to-@base IRIs, blank nodes, 'a' and rdf:type, plain / language-tagged / typed literals "
            "(datatype as <IRI>, xsd:-prefixed, custom-prefixed), literals containing '#', ';', ',', '.', escaped quotes and "
            "backslashes, untyped integers; layouts: every gap is a blank, two blanks, tab, line break, line break + indent, "
            "trailing comment + line break, or a whole comment line; exhaustive / sampled line-break placements of a 13-token "
            "document per token form, random documents up to 8 triples; non-trivial = at least one non-blank gap")


REGISTRY["C07"] = check_c07
