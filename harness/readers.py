"""C06 / C07: the hand-written streaming readers against spec/NtReader.tla and spec/TtlReader.tla."""
import itertools
import random
from harness import common, tlc, runner

# ------------------------------------------------------------------------------------------------ C06
ALPHABET = ["EQ", "EB", "HH", "SD", "XS", "GE", "UE", "NA", "@", "#", "<", ">", "7", "_", "%", "a"]
EXPAND = {"EQ": '\\"', "EB": "\\\\", "HH": "^^", "SD": " .", "XS": "xsd:", "GE": "geo:", "UE": "\\u00E9", "NA": "é"}
IRIS = {"i1": "http://a.b/c#d", "i2": "urn:x:y_z@w", "i3": "http://a.b/p_q", "dt": "http://u.v/dt#t"}
BNODES = {"b1": "_:b1", "b2": "_:x_2"}
SUFFIX = {"none": "", "lang": "@en", "langreg": "@en-GB", "dt": "^^<%s>" % IRIS["dt"]}
SEPS = {"sp": " ", "tab": "\t", "sp2": "  "}


def nt_term(t):
    if t["kind"] == "iri":
        return "<%s>" % IRIS[t["id"]]
    if t["kind"] == "bnode":
        return BNODES[t["id"]]
    return '"' + "".join(EXPAND.get(s, s) for s in t["content"]) + '"' + SUFFIX[t["suffix"]]


def nt_line(x):
    sep = SEPS[x["sep"]]
    return (nt_term(x["s"]) + sep + "<%s>" % IRIS[x["p"]] + sep + nt_term(x["o"]) + ("." if x["glued"] else " .")
            + (' # c "<.' if x["comment"] else ""))


def node(kind, ident):
    return {"kind": kind, "id": ident, "content": [], "suffix": "none"}


def lit(content, suffix):
    return {"kind": "lit", "id": "", "content": list(content), "suffix": suffix}


def nt_statements(max_len, layouts="all", rnd=None, sample=None):
    subjects = [node("iri", "i1"), node("iri", "i2"), node("bnode", "b1")] if layouts == "all" else [node("iri", "i1")]
    seps = ["sp", "tab", "sp2"] if layouts == "all" else ["sp"]
    comments = [False, True] if layouts == "all" else [False]
    objs = [node("iri", "i2"), node("bnode", "b2")]
    for n in range(max_len + 1):
        for content in itertools.product(ALPHABET, repeat=n):
            for sf in SUFFIX:
                objs.append(lit(content, sf))
    out = []
    i = 0
    for o in objs:
        for s in subjects:
            for sep in seps:
                for g in (False, True):
                    for c in comments:
                        out.append({"id": "nt%d" % i, "x": {"s": s, "p": "i3", "o": o, "sep": sep, "glued": g, "comment": c}})
                        i += 1
    if sample is not None and len(out) > sample:
        out = rnd.sample(out, sample)
    return out


def random_nt_statements(rnd, n, max_len=12):
    out = []
    for i in range(n):
        content = [rnd.choice(ALPHABET) for _ in range(rnd.randint(3, max_len))]
        o = lit(content, rnd.choice(list(SUFFIX)))
        out.append({"id": "ntr%d" % i, "x": {"s": rnd.choice([node("iri", "i1"), node("iri", "i2"), node("bnode", "b1")]), "p": "i3",
                                             "o": o, "sep": rnd.choice(list(SEPS)), "glued": rnd.random() < .5,
                                             "comment": rnd.random() < .3}})
    return out


def _read_nt(payload):
    from shexer.io.graph.yielder.nt_triples_yielder import NtTriplesYielder
    line = nt_line(payload["x"])

    def go():
        y = NtTriplesYielder(raw_graph=line + "\n")
        triples = []
        for s, p, o in y.yield_triples():
            triples.append([_term(s), str(p), _term(o)])
        return triples, y.error_triples
    st, val, exc, frame = runner.call_guarded(go, timeout=3)
    res = {"id": payload["id"], "x": payload["x"], "line": list(line), "status": st, "exc": exc, "frame": frame,
           "triples": [], "errors": 0}
    if st == "ok":
        res["triples"], res["errors"] = val
    return res


def _term(t):
    et = getattr(t, "elem_type", None)
    if et in ("IRI", "BNode"):
        return [et, t.iri]
    return [str(et), str(t)]


def judge_nt(out, stmts, label):
    results = runner.run_many(_read_nt, stmts, chunk=200)
    for r in results:
        if r.get("status") == "harness-error":
            raise common.Machinery("harness error: %s\n%s" % (r.get("exc"), r.get("trace", "")))
    traces = [{"id": r["id"], "x": r["x"], "line": r["line"], "status": r["status"], "triples": r["triples"], "errors": r["errors"]}
              for r in results]
    verdicts, stats = tlc.validate_batch("Trace_NtReader", "Trace_NtReader.cfg", traces, procs=12)
    out.traces += len(traces)
    out.evaluations += len(traces)
    out.notes["monitor_states"] = out.notes.get("monitor_states", 0) + stats["states"]
    drift = 0
    for r in results:
        v = verdicts[r["id"]]
        if r["x"]["o"]["kind"] == "lit" and r["x"]["o"]["content"]:
            out.nontrivial.add(r["id"])
        for c in v["clauses"]:
            if c.startswith("MACHINERY"):
                raise common.Machinery("generator / renderer / grammar disagree on %r (%s)" % ("".join(r["line"]), c))
            if c.startswith("drift"):
                drift += 1
                continue
        case = {"kind": "nt", "x": r["x"], "line": "".join(r["line"])}
        detail = "%s line=%r yielded=%r errors=%d %s" % (label, "".join(r["line"]), r["triples"], r["errors"], r["exc"])
        out.judge_clauses([c for c in v["clauses"] if c.startswith("C06")], case, lambda c: True, detail=detail)
        out.sample({"line": "".join(r["line"]), "yielded": r["triples"], "errors": r["errors"], "clauses": v["clauses"]})
    out.notes["drift_vs_transliteration"] = out.notes.get("drift_vs_transliteration", 0) + drift


def check_c06(out, tier):
    rnd = random.Random(common.seed() + 6)
    for cfg in (["MC_C06_quick.cfg"] if tier == "quick" else ["MC_C06_mid.cfg", "MC_C06_thorough.cfg"]):
        r = tlc.check_model("MC_NtReader", cfg, timeout=3000)
        out.add_l1(cfg, r)
        for inv in r["violated"]:
            out.violation("L1.%s" % inv, {"model": cfg}, "design-level counterexample (spec/MC_NtReader, %s):\n%s" % (cfg, r["out"][-1500:]))
    if tier == "quick":
        judge_nt(out, nt_statements(2, "all", rnd, sample=6000), "exhaustive L<=2 (sampled layouts)")
        judge_nt(out, random_nt_statements(rnd, 1500), "random L<=12")
        out.exhaustive = False
    else:
        judge_nt(out, nt_statements(2, "all"), "exhaustive L<=2, all layouts")
        judge_nt(out, nt_statements(3, "core"), "exhaustive L<=3, core layout")
        judge_nt(out, random_nt_statements(rnd, 20000), "random L<=12")
    return ("single-line N-Triples statements: subject in {2 IRIs with '#','@','_',':' ; blank node} x object in {IRI, blank "
            "node, literal whose content is a word over the 16-symbol adversarial alphabet (escaped quote, escaped backslash, "
            "'@', '^^', '#', ' .', '<', '>', 'xsd:', 'geo:', digit, '_', non-ASCII, \\uXXXX, '%', 'a')} x suffix {none, @en, "
            "@en-GB, ^^<iri>} x separator {blank, tab, two blanks} x glued final dot x trailing comment; non-trivial = literal "
            "with non-empty content")


def replay(prop, d):
    out = common.Outcome(prop, "quick")
    case = d["case"]
    if case.get("kind") == "nt":
        judge_nt(out, [{"id": "replay", "x": case["x"]}], "replay")
    elif case.get("kind") == "ttl":
        judge_ttl(out, [{"id": "replay", "doc": case["doc"]}], "replay")
    return common.finish(out, rule="replay")


REGISTRY = {"C06": check_c06}
