"""pytest plugin (-p harness.suite_plugin): turns the repository's own tests into trace producers.

Every Shaper the suite builds is recorded: constructor arguments (scalars), every shex_graph call with its arguments and
result, and - through the SHEXER_VERIF hooks - the triples both passes read (the document as the implementation saw it,
whatever the input channel) and the tracker's membership. One JSON line per Shaper is appended to $VERIF_SUITE_TRACES."""
import os
import json

os.environ["SHEXER_VERIF"] = "1"
_OUT = os.environ.get("VERIF_SUITE_TRACES")
_current = {"rec": None}
_RECS = []


def _scalar(v):
    if isinstance(v, (str, int, float, bool)) or v is None:
        return v
    if isinstance(v, (list, tuple)) and all(isinstance(x, (str, int, float, bool)) for x in v):
        return list(v)
    if isinstance(v, dict) and all(isinstance(k, str) and isinstance(x, str) for k, x in v.items()):
        return dict(v)
    return "<%s>" % type(v).__name__


def pytest_configure(config):
    from shexer import shaper as shaper_mod
    from shexer.utils import verif_trace
    Shaper = shaper_mod.Shaper
    orig_init, orig_shex = Shaper.__init__, Shaper.shex_graph

    def sink(event, fields):
        rec = _current["rec"]
        if rec is None:
            return
        if event == "pass.triple":
            key = "read%d" % fields["n_pass"]
            if len(rec[key]) < 400:
                rec[key].append(fields["triple"])
            else:
                rec["truncated"] = True
        elif event == "tracked":
            rec["tracked"] = fields["inst"]
    verif_trace.set_sink(sink)

    def init(self, *a, **kw):
        self._verif_rec = {"ctor": {k: _scalar(v) for k, v in kw.items()}, "nargs": len(a), "calls": [], "read1": [], "read2": [],
                           "tracked": None, "truncated": False, "test": os.environ.get("PYTEST_CURRENT_TEST", "")}
        _RECS.append(self._verif_rec)
        orig_init(self, *a, **kw)

    def shex_graph(self, *a, **kw):
        rec = getattr(self, "_verif_rec", None)
        _current["rec"] = rec
        call = {"args": {k: _scalar(v) for k, v in kw.items()}, "nargs": len(a), "status": "ok", "exc": "", "text": None}
        try:
            res = orig_shex(self, *a, **kw)
            if isinstance(res, str):
                call["text"] = res
            return res
        except Exception as e:
            call["status"], call["exc"] = "raise", type(e).__name__
            raise
        finally:
            _current["rec"] = None
            if rec is not None:
                rec["calls"].append(call)
                if _OUT and len(rec["calls"]) == 1:
                    pass

    Shaper.__init__ = init
    Shaper.shex_graph = shex_graph
    config._verif_shaper = Shaper


def pytest_sessionfinish(session, exitstatus):
    if _OUT:
        with open(_OUT, "w") as fh:
            for rec in _RECS:
                fh.write(json.dumps(rec) + "\n")
