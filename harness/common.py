"""Shared plumbing of the checks: tiers, seeds, evidence files, known findings, replay files, verdict lines."""
import os
import sys
import json
import time
import hashlib

ROOT = os.path.dirname(os.path.dirname(os.path.abspath(__file__)))
EVIDENCE_DIR = os.path.join(ROOT, "evidence")
REPLAY_DIR = os.path.join(ROOT, "replays")
PINNED_DIR = os.path.join(ROOT, "pinned")
KNOWN_FILE = os.path.join(ROOT, "known_findings.json")


class Machinery(Exception):
    """the check itself is broken (exit 2): never reported as a verdict"""


def seed():
    try:
        return int(os.environ.get("VERIF_SEED", "20261004"))
    except ValueError:
        return 20261004


def load_known():
    with open(KNOWN_FILE) as fh:
        return json.load(fh)["findings"]


class Outcome(object):
    """collects what one check run saw"""

    def __init__(self, prop, tier):
        self.prop = prop
        self.tier = tier
        self.t0 = time.time()
        self.violations = []        # dicts: clause, case (replayable), detail
        self.known_seen = {}        # finding key -> count
        self.states = 0
        self.transitions = 0
        self.traces = 0
        self.evaluations = 0
        self.nontrivial = set()
        self.samples = []
        self.notes = {}
        self.skipped = {}
        self.exhaustive = False
        self.l1 = []

    # ---- accounting
    def add_l1(self, name, r):
        self.states += r["distinct"]
        self.transitions += r["states"]
        self.l1.append({"model": name, "distinct_states": r["distinct"], "states_generated": r["states"],
                        "wall_s": round(r["wall"], 1), "violated": r["violated"]})

    def skip(self, why, n=1):
        self.skipped[why] = self.skipped.get(why, 0) + n

    def sample(self, obj, limit=3):
        if len(self.samples) < limit:
            self.samples.append(obj)

    # ---- verdicts
    def violation(self, clause, case, detail=""):
        self.violations.append({"clause": clause, "case": case, "detail": detail})

    def known(self, key, n=1):
        self.known_seen[key] = self.known_seen.get(key, 0) + n

    def judge_clauses(self, clauses, case, mine, detail=""):
        """clauses: names from a monitor; mine: predicate selecting the clauses that belong to this property.
        'KF.<prop>...' clauses are known-finding markers computed by the specification."""
        for c in clauses:
            if c.startswith("KF."):
                if mine(c[3:]):
                    self.known(c)
            elif mine(c):
                self.violation(c, case, detail)


def finish(out, level="model_checking", assumptions=None, rule="", extra=None):
    """writes evidence, prints the verdict lines, returns the exit code"""
    findings = {f["key"]: f for f in load_known()}
    lines = []
    real = []
    # known-finding markers: only an OPEN entry of the committed file downgrades them
    for key, n in sorted(out.known_seen.items()):
        f = findings.get(key)
        if f is not None and f["status"] == "open" and f["property"] == out.prop:
            lines.append("KNOWN-FINDING: property=%s %s [%s, seen %d times]" % (out.prop, f["what"], key, n))
        else:
            real.append({"clause": key, "case": None, "detail": "finding marker without an open entry in known_findings.json"})
    real.extend(out.violations)
    replay_paths = []
    seen_clause = set()
    for v in real:
        payload = json.dumps({"property": out.prop, "clause": v["clause"], "case": v["case"], "detail": v["detail"]}, sort_keys=True)
        h = hashlib.sha256(payload.encode()).hexdigest()[:12]
        path = os.path.join(REPLAY_DIR, "%s-%s.json" % (out.prop, h))
        if len(replay_paths) < 20:
            os.makedirs(REPLAY_DIR, exist_ok=True)
            with open(path, "w") as fh:
                fh.write(payload)
            replay_paths.append(path)
            if v["clause"] not in seen_clause or len(seen_clause) < 5:
                lines.append("VIOLATION property=%s replay=%s clause=%s %s" % (out.prop, path, v["clause"], (v["detail"] or "")[:160]))
            seen_clause.add(v["clause"])
    cov = {
        "states": out.states, "transitions": out.transitions, "traces_validated_against_impl": out.traces,
        "samples": out.samples if out.samples else [{"note": "no sample recorded"}],
        "evaluations": out.evaluations, "distinct_nontrivial": len(out.nontrivial),
        "rule": rule, "exhaustive": out.exhaustive, "l1_models": out.l1, "skipped": out.skipped,
        "known_findings_seen": out.known_seen, "violating_clauses": sorted({v["clause"] for v in real}),
    }
    cov.update(out.notes)
    if extra:
        cov.update(extra)
    ev = {"property_id": out.prop, "tier": out.tier, "seed": seed(), "level": level, "coverage": cov,
          "assumptions": assumptions or [], "wall_s": round(time.time() - out.t0, 2), "violations": len(real)}
    if not os.environ.get("VERIF_NO_EVIDENCE"):        # developer sweeps must not overwrite the committed evidence
        os.makedirs(EVIDENCE_DIR, exist_ok=True)
        with open(os.path.join(EVIDENCE_DIR, "%s.json" % out.prop), "w") as fh:
            json.dump(ev, fh, indent=1, sort_keys=True, default=str)
    for l in lines:
        print(l)
    print("%s %s: %s  states=%d traces=%d evaluations=%d wall=%.1fs" % (
        out.prop, out.tier, "VIOLATED" if real else "holds on everything explored", out.states, out.traces,
        out.evaluations, time.time() - out.t0))
    sys.stdout.flush()
    return 1 if real else 0


def load_pinned(prop):
    """pinned reproducers of known / fixed findings: always executed as ordinary cases"""
    res = []
    if not os.path.isdir(PINNED_DIR):
        return res
    for fn in sorted(os.listdir(PINNED_DIR)):
        if fn.endswith(".json"):
            with open(os.path.join(PINNED_DIR, fn)) as fh:
                d = json.load(fh)
            if prop in d.get("properties", []):
                d["file"] = fn
                res.append(d)
    return res
