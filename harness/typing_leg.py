"""Literal typing by input channel (spec/LiteralTyping.tla, monitor spec/Trace_Typing.tla).

One literal = (lexical class, declared kind).  Every well-typed pair is sent through every channel the library has - the line
readers (N-Triples, TSV, the streaming Turtle reader; quoted, and written as Turtle shorthand where the syntax has one), the
rdflib-parsed syntaxes, an rdflib Graph, the endpoint result reader (with and without numeric inference) - as the only value of
one property of one instance; the datatype / node kind of the constraint the library prints for it is judged against the
specification's Type(channel, form, class, declared kind).  The table is small and closed, so it is covered exhaustively.
"""
import re
from harness import runner, gen, common, tlc, rdfmodel as M

XSD = M.XSD
# lexical classes and their witnesses (mirrors LiteralTyping!Witness)
WITNESS = {"word": "abc", "int": "57", "sint": "+8", "nint": "-30", "zeros": "007", "dec": "3.14", "exp": "1e3", "decexp": "1.5e1",
           "nan": "nan", "inf": "inf", "under": "1_000", "bool": "true", "empty": "", "http": "http://example.org/u0",
           "urn": "urn:x:1", "date": "2020-01-02", "spaced": "a b", "langlike": "x@en", "hashy": "a#b", "dt_like": "v^^xsd:int",
           "huge": "1e400", "multiline": "l1\nl2"}
DECL_TYPE = {"plain": M.XSD_STRING, "lang": M.LANG_STRING, "integer": XSD + "integer", "decimal": XSD + "decimal", "double": XSD + "double",
             "float": XSD + "float", "boolean": XSD + "boolean", "date": XSD + "date", "anyURI": XSD + "anyURI", "custom": gen.DT_CUSTOM}
# which lexical classes are legal lexical forms of which declared kind (mirrors LiteralTyping!WellTyped)
WELL_TYPED = {"plain": list(WITNESS), "lang": list(WITNESS), "custom": list(WITNESS),
              "integer": ["int", "sint", "nint", "zeros"], "decimal": ["int", "sint", "nint", "zeros", "dec"],
              "double": ["int", "sint", "nint", "zeros", "dec", "exp", "decexp", "huge"], "float": ["int", "dec", "exp", "decexp"],
              "boolean": ["bool"], "date": ["date"], "anyURI": ["http", "urn"]}
# Turtle shorthand: an unquoted token stands for a typed literal
SHORTHAND = {"integer": ["int", "sint", "nint", "zeros"], "decimal": ["dec"], "double": ["exp", "decexp", "huge"], "boolean": ["bool"]}
LOCAL_TEXT = ["nt", "tsv_spo", "turtle_iter", "turtle", "n3", "xml", "json-ld"]


def literal(lc, decl):
    if decl == "lang":
        return M.lit(WITNESS[lc], lang="en")
    return M.lit(WITNESS[lc], DECL_TYPE[decl])


def graph_of(lc, decl):
    a = M.iri(M.EX + "a")
    return [(a, M.RDF_TYPE, M.iri(M.EX + "C")), (a, M.EX + "p", literal(lc, decl))]


def rows():
    out = []
    i = 0
    for decl, lcs in WELL_TYPED.items():
        for lc in lcs:
            for ch in LOCAL_TEXT + ["rdflib"]:
                out.append({"id": "ty%d" % i, "lc": lc, "decl": decl, "channel": ch, "form": "quoted", "infer": True})
                i += 1
            for infer in (True, False):
                out.append({"id": "ty%d" % i, "lc": lc, "decl": decl, "channel": "endpoint", "form": "quoted", "infer": infer})
                i += 1
    for decl, lcs in SHORTHAND.items():
        for lc in lcs:
            for ch in ("turtle_iter", "tsv_spo", "turtle"):
                for infer in (True, False):
                    out.append({"id": "ty%d" % i, "lc": lc, "decl": decl, "channel": ch, "form": "shorthand", "infer": infer})
                    i += 1
    return out


def _text(row, T):
    from harness import channels
    ch = row["channel"]
    if row["form"] == "shorthand":
        tok = WITNESS[row["lc"]]
        if ch == "tsv_spo":
            return "<%sa>\t<%s>\t<%sC>\n<%sa>\t<%sp>\t%s\n" % (M.EX, M.RDF_TYPE, M.EX, M.EX, M.EX, tok)
        return "@prefix ex: <%s> .\nex:a a ex:C ;\n  ex:p %s .\n" % (M.EX, tok)
    import random
    return channels.serialize(T, ch, random.Random(0))


def _observe(row):
    """-> {"status", "kinds": [kind of each constraint on ex:p]}"""
    from harness import channels
    T = graph_of(row["lc"], row["decl"])
    case = gen.case(row["id"], T, mode="all")
    if row["channel"] == "endpoint":
        from shexer.shaper import Shaper
        channels.install_fake_endpoint(T)
        kw = runner.shaper_kwargs(case, graph_kwargs={"url_endpoint": channels.ENDPOINT_URL})
        kw.pop("input_format", None)
        kw["infer_numeric_types_for_untyped_literals"] = row["infer"]
        st, text, exc, frame = runner.call_guarded(lambda: Shaper(**kw).shex_graph(string_output=True), timeout=30)
        res = {"id": row["id"], "status": st, "exc": exc, "frame": frame}
        if st == "ok":
            res["schema"] = runner.observe_schema(text, case)
    else:
        if row["channel"] == "rdflib":
            gk = {"rdflib_graph": M.to_rdflib(T)}
        else:
            gk = {"raw_graph": _text(row, T), "input_format": row["channel"]}
        gk["infer_numeric_types_for_untyped_literals"] = row["infer"]
        res = runner.run_case(case, graph_kwargs=gk)
    kinds = []
    if res["status"] == "ok" and res.get("schema", {}).get("parse") == "ok":
        for sh in res["schema"]["shapes"]:
            for tc in sh["tcs"]:
                if tc["p"] == M.EX + "p":
                    kinds.append(tc["k"] or "|".join(tc["ks"]))
    return {"id": row["id"], "status": res["status"] if res["status"] in ("ok", "raise", "hang") else "harness",
            "exc": res.get("exc", ""), "frame": res.get("frame", ""), "kinds": sorted(kinds)}


def leg(out, prop, channels_wanted):
    """runs the rows of the wanted channels and judges them with Trace_Typing; clauses '<prop>.typing...' belong to the caller"""
    todo = [r for r in rows() if r["channel"] in channels_wanted]
    obs = runner.run_many(_observe, todo, chunk=8)
    traces = []
    for r, o in zip(todo, obs):
        if o.get("status") == "harness-error":
            raise common.Machinery("harness error: %s\n%s" % (o.get("exc"), o.get("trace", "")))
        traces.append({"id": r["id"], "prop": prop, "lc": r["lc"], "witness": WITNESS[r["lc"]], "decl": r["decl"], "channel": r["channel"],
                       "form": r["form"], "infer": r["infer"], "status": o["status"], "kinds": o["kinds"]})
    verdicts, stats = tlc.validate_batch("Trace_Typing", "Trace_Typing.cfg", traces, procs=4)
    out.traces += len(traces)
    out.evaluations += len(traces)
    out.notes["typing_rows"] = out.notes.get("typing_rows", 0) + len(traces)
    drift = 0
    by = {o["id"]: o for o in obs}
    for t in traces:
        v = verdicts[t["id"]]
        out.nontrivial.add("typing:%s:%s:%s:%s:%s" % (t["lc"], t["decl"], t["channel"], t["form"], t["infer"]))
        if any(c.startswith("drift.") for c in v["clauses"]):
            drift += 1
            out.notes.setdefault("typing_drift_rows", []).append({k: t[k] for k in ("lc", "decl", "channel", "form", "infer", "kinds")})
        out.judge_clauses(v["clauses"], {"kind": "typing", "row": {k: t[k] for k in t if k not in ("id",)}},
                          lambda c: c.startswith(prop + "."),
                          detail="literal %r declared %s through %s (%s, infer=%s): printed %s%s" % (
                              t["witness"], t["decl"], t["channel"], t["form"], t["infer"], t["kinds"],
                              (" [%s %s@%s]" % (t["status"], by[t["id"]]["exc"], by[t["id"]]["frame"])) if t["status"] != "ok" else ""))
    out.notes["typing_drift"] = out.notes.get("typing_drift", 0) + drift
    return len(traces)


if __name__ == "__main__":      # developer view of the observed table
    import sys, os
    os.environ.setdefault("SHEXER_VERIF", "1")
    todo = rows()
    obs = runner.run_many(_observe, todo, chunk=8)
    for r, o in zip(todo, obs):
        short = [k.replace(XSD, "xsd:").replace("http://www.w3.org/1999/02/22-rdf-syntax-ns#", "rdf:") for k in o.get("kinds", [])]
        print(r["lc"], r["decl"], r["channel"], r["form"], r["infer"], o.get("status"), short, o.get("exc", ""))
