"""Runs sheXer (the working tree under /repo) on abstract cases and projects what happened.

A case is a JSON-able dict:  {"id", "graph": [[ [sk,sid], p, [ok,oid] ], ...], "cfg": {...}}
(cfg fields: see default_cfg).  run_case() returns a dict with status / text / observed schema / hook events.
Every call into repository code is guarded by an alarm (the readers can loop forever on some inputs) and
cases are normally executed in a pool of forked worker processes (run_cases).
"""
import os
import sys
import json
import signal
import traceback
import warnings
import multiprocessing

os.environ.setdefault("SHEXER_VERIF", "1")
REPO = os.environ.get("SHEXER_REPO", "/repo")
if REPO not in sys.path:
    sys.path.insert(0, REPO)
warnings.simplefilter("ignore")

from harness import rdfmodel as M
from harness import shexc

CASE_TIMEOUT = int(os.environ.get("VERIF_CASE_TIMEOUT", "10"))


class CaseTimeout(BaseException):
    pass


def _alarm(*_a):
    raise CaseTimeout()


def default_cfg(**over):
    cfg = {
        "instProp": M.RDF_TYPE, "mode": "all", "targets": [], "items": [],
        "thr": [0, 1], "inverse": False, "allCompliant": True, "keepLess": True, "discardUseless": True,
        "allowOpt": True, "disableExact": False, "disableOr": True, "redundantOr": False, "removeEmpty": True,
        "cap": 0, "ignoreNs": [], "salt": 0,
        # presentation / channel options
        "report": "mixed", "decimals": -1, "comments": True, "shapesNs": M.SHAPES_NS, "nsDict": [],
        "minIri": False, "examples": "", "format": "shexc", "spelling": "full", "smSyntax": "fsm",
    }
    cfg.update(over)
    return cfg


def tla_cfg(cfg):
    """the part of the configuration the specification reads"""
    keys = ["instProp", "mode", "targets", "items", "thr", "inverse", "allCompliant", "keepLess", "discardUseless",
            "allowOpt", "disableExact", "disableOr", "redundantOr", "removeEmpty", "cap", "ignoreNs", "salt", "decimals"]
    out = {k: cfg[k] for k in keys}
    if cfg.get("instDoc"):
        out["instDoc"] = cfg["instDoc"]
    out["items"] = [{"label": it["label"], "kind": it["kind"], "node": it.get("node", ["IRI", ""]),
                     "ps": it.get("ps", ["ANY", ""]), "pp": it.get("pp", ""), "po": it.get("po", ["ANY", ""])}
                    for it in cfg["items"]]
    return out


# ---------------------------------------------------------------------------------------------------
def _prefixed(uri, nsdict):
    for ns, pre in nsdict:
        if uri.startswith(ns) and "/" not in uri[len(ns):] and "#" not in uri[len(ns):]:
            return pre + ":" + uri[len(ns):]
    return None


def spell(uri, cfg, how=None):
    how = how or cfg["spelling"]
    if how == "prefixed":
        p = _prefixed(uri, cfg["nsDict"])
        if p is not None:
            return p
        how = "bracket"
    if how == "bracket":
        return "<" + uri + ">"
    return uri


def _slot(slot, cfg, how):
    if slot[0] == "FOCUS":
        return "FOCUS"
    if slot[0] == "ANY":
        return "_"
    if slot[1] == M.RDF_TYPE and how == "a":
        return "a"
    return spell(slot[1], cfg, "prefixed" if how == "prefixed" else "bracket")


def item_selector_text(it, cfg):
    how = it.get("spelling", "bracket")
    if it["kind"] == "node":
        return spell(it["node"][1], cfg, "prefixed" if how == "prefixed" else "bracket")
    pp = "a" if (it["pp"] == M.RDF_TYPE and how == "a") else spell(it["pp"], cfg, "prefixed" if how == "prefixed" else "bracket")
    if it.get("syntax") == "sparql":
        def v(slot, var):
            return var if slot[0] in ("FOCUS", "ANY") else "<" + slot[1] + ">"
        s = v(it["ps"], "?x" if it["ps"][0] == "FOCUS" else "?y")
        o = v(it["po"], "?x" if it["po"][0] == "FOCUS" else "?y")
        body = "{ %s <%s> %s }" % (s, it["pp"], o)
        # the query text is the user's: keyword case, the optional WHERE, what follows the variable (blank, tab, line break, brace)
        lay = it.get("sparqlLayout", "plain")
        # prefixed names glued to an operator (no blank, brace or parenthesis before the prefix): an inverse path, a FILTER
        pfx_p = _prefixed(it["pp"], cfg["nsDict"])
        pfx_o = _prefixed(it["po"][1], cfg["nsDict"]) if it["po"][0] == "IRI" else None
        # (in a SPARQL query the local part of a prefixed name has escaping rules of its own: plain local names only)
        import re as _re
        pfx_p = pfx_p if pfx_p and _re.match(r"^[A-Za-z-]*:[A-Za-z][A-Za-z0-9_]*$", pfx_p) else None
        pfx_o = pfx_o if pfx_o and _re.match(r"^[A-Za-z-]*:[A-Za-z][A-Za-z0-9_]*$", pfx_o) else None
        if lay == "invpath" and pfx_p and it["ps"][0] == "FOCUS" and it["po"][0] == "IRI":
            return "SPARQL \"select ?x where { <%s> ^%s ?x }\"" % (it["po"][1], pfx_p)
        if lay == "filter" and pfx_o and it["ps"][0] == "FOCUS":
            return "SPARQL \"select ?x where { ?x <%s> ?y FILTER(?y=%s) }\"" % (it["pp"], pfx_o)
        if lay in ("invpath", "filter"):
            lay = "plain"
        q = {"plain": "select ?x where " + body, "upper": "SELECT ?x WHERE " + body, "nowhere": "select ?x " + body,
             "brace": "SELECT ?x" + body, "tab": "select ?x\twhere " + body, "newline": "select ?x\nwhere " + body,
             "distinct": "select distinct ?x where " + body}[lay]
        if lay == "newline" and cfg.get("smSyntax") != "json":       # the fixed syntax is line-based
            q = "select ?x where " + body
        return "SPARQL \"%s\"" % q
    return "{%s %s %s}" % (_slot(it["ps"], cfg, how), pp, _slot(it["po"], cfg, how))


def item_label_text(it, cfg):
    """label key -> text in the shape map; returns (text, IRI the shape is expected to be emitted under)"""
    key = it["label"]
    if it.get("labelSpelling") == "prefixed":
        p = _prefixed(key, cfg["nsDict"])
        if p is not None:
            return p, cfg["shapesNs"] + M.local_name(key)
    return "<" + key + ">", key


def shape_map_text(cfg):
    if cfg["smSyntax"] == "json":
        return json.dumps([{"nodeSelector": item_selector_text(it, cfg), "shapeLabel": item_label_text(it, cfg)[0]}
                           for it in cfg["items"]])
    return "\n".join("%s@%s" % (item_selector_text(it, cfg), item_label_text(it, cfg)[0]) for it in cfg["items"]) + "\n"


def expected_labels(case):
    """[[key, label IRI]]: how each shape key is expected to be named in the output (trusted, simple)"""
    cfg = case["cfg"]
    out = {}
    classes = set(cfg["targets"])
    if cfg["mode"] in ("all", "mixed"):
        for s, p, o in M.from_json_graph(cfg.get("instDoc") or case["graph"]):
            if p == cfg["instProp"] and M.is_node(o):
                classes.add(o[1])
    if cfg["mode"] != "shapemap":
        for c in sorted(classes):
            out[c] = cfg["shapesNs"] + M.local_name(c)
    if cfg["mode"] in ("shapemap", "mixed"):
        for it in cfg["items"]:
            out[it["label"]] = item_label_text(it, cfg)[1]
    return sorted([k, v] for k, v in out.items())


# ---------------------------------------------------------------------------------------------------
def shaper_kwargs(case, graph_kwargs=None):
    from shexer import consts as C
    cfg = case["cfg"]
    kw = {}
    if graph_kwargs is None:
        # the same abstract graph may reach the library through another channel than an N-Triples string (case["channel"]):
        # a Turtle / RDF-XML text parsed by rdflib, or an rdflib Graph built by the caller
        ch = case.get("channel", "nt")
        T = M.from_json_graph(case["graph"])
        if case.get("rawText") is not None:        # the document as written by the caller (empty, comments only ...)
            kw["raw_graph"] = case["rawText"]
            kw["input_format"] = {"nt": C.NT, "turtle": C.TURTLE, "turtle_iter": C.TURTLE_ITER, "tsv_spo": C.TSV_SPO}[ch]
        elif ch == "rdflib":
            kw["rdflib_graph"] = M.to_rdflib(T)
        elif ch in ("turtle", "xml"):
            g = M.to_rdflib(T)
            for pre, ns in case.get("docPrefixes", []):     # prefixes the document itself declares (they may clash with the user's labels)
                g.bind(pre, ns, replace=True)
            kw["raw_graph"] = g.serialize(format=ch)
            kw["input_format"] = C.TURTLE if ch == "turtle" else C.RDF_XML
        else:
            # (a document may start with a byte order mark: it belongs to no statement)
            kw["raw_graph"] = ("\ufeff" if case.get("bom") else "") + M.to_nt(T)
            kw["input_format"] = C.NT
    else:
        kw.update(graph_kwargs)
    if cfg["nsDict"]:
        kw["namespaces_dict"] = {ns: pre for ns, pre in cfg["nsDict"]}
    if cfg["instProp"] != M.RDF_TYPE:
        # (the instantiation property is accepted as a full or as a prefixed IRI)
        ips = _prefixed(cfg["instProp"], cfg["nsDict"]) if cfg.get("instPropSpelling") == "prefixed" else None
        kw["instantiation_property"] = ips or cfg["instProp"]
    if cfg["mode"] in ("all", "mixed"):
        kw["all_classes_mode"] = True
    if cfg["mode"] == "classes":
        # case["targetsTwice"]: classes the user names a second time, spelled differently (the set of targets is the same set)
        other = "bracket" if cfg["spelling"] != "bracket" else "full"
        named = [spell(c, cfg) for c in cfg["targets"]] + [spell(c, cfg, other) for c in case.get("targetsTwice", []) if c in cfg["targets"]]
        if case.get("targetsPath"):       # the classes listed in a file (file_target_classes), one per line
            with open(case["targetsPath"], "w", encoding="utf8") as fh:
                fh.write("".join(c + "\n" for c in named))
            kw["file_target_classes"] = case["targetsPath"]
        else:
            kw["target_classes"] = named
    if cfg["mode"] in ("shapemap", "mixed"):
        kw["shape_map_raw"] = shape_map_text(cfg)
        kw["shape_map_format"] = C.JSON if cfg["smSyntax"] == "json" else C.FIXED_SHAPE_MAP
    kw["inverse_paths"] = cfg["inverse"]
    kw["all_instances_are_compliant_mode"] = cfg["allCompliant"]
    kw["keep_less_specific"] = cfg["keepLess"]
    kw["discard_useless_constraints_with_positive_closure"] = cfg["discardUseless"]
    kw["allow_opt_cardinality"] = cfg["allowOpt"]
    kw["disable_exact_cardinality"] = cfg["disableExact"]
    kw["disable_or_statements"] = cfg["disableOr"]
    kw["allow_redundant_or"] = cfg["redundantOr"]
    kw["remove_empty_shapes"] = cfg["removeEmpty"]
    if cfg["cap"] > 0:
        kw["instances_cap"] = cfg["cap"]
    if cfg["ignoreNs"]:
        kw["namespaces_to_ignore"] = list(cfg["ignoreNs"])
    kw["instances_report_mode"] = {"mixed": C.MIXED_INSTANCES, "abs": C.ABSOLUTE_INSTANCES, "ratio": C.RATIO_INSTANCES}[cfg["report"]]
    kw["decimals"] = cfg["decimals"]
    kw["disable_comments"] = not cfg["comments"]
    if cfg["shapesNs"] != M.SHAPES_NS:
        kw["shapes_namespace"] = cfg["shapesNs"]
    kw["detect_minimal_iri"] = cfg["minIri"]
    if cfg["examples"]:
        kw["examples_mode"] = cfg["examples"]
    return kw


def _innermost_shexer_frame(tb):
    frame = ""
    for fs in traceback.extract_tb(tb):
        if "/shexer/" in fs.filename:
            frame = "%s:%s" % (fs.filename.split("/shexer/", 1)[1], fs.name)
    return frame


def call_guarded(fn, timeout=None):
    """-> (status, value, exc_type, frame)"""
    # the watchdog counts the CPU time of this process (a loop that never ends burns it whatever the load of the machine; a
    # descheduled process does not); a generous wall-clock alarm stays behind it for a call that blocks without computing
    t = timeout or CASE_TIMEOUT
    old = signal.signal(signal.SIGALRM, _alarm)
    oldp = signal.signal(signal.SIGPROF, _alarm)
    signal.setitimer(signal.ITIMER_PROF, t)
    signal.alarm(max(60, 10 * t))
    try:
        v = fn()
        return "ok", v, "", ""
    except CaseTimeout:
        return "hang", None, "Timeout", ""
    except Exception as e:       # noqa
        return "raise", None, type(e).__name__, _innermost_shexer_frame(sys.exc_info()[2])
    finally:
        signal.setitimer(signal.ITIMER_PROF, 0)
        signal.alarm(0)
        signal.signal(signal.SIGALRM, old)
        signal.signal(signal.SIGPROF, oldp)


class Recorder(object):
    """sink of the SHEXER_VERIF hooks: keeps small projections of the logged stage states"""
    def __init__(self):
        self.events = []

    def __call__(self, event, fields):
        self.events.append((event, fields))

    def of(self, name):
        return [f for e, f in self.events if e == name]


def install_recorder():
    try:
        from shexer.utils import verif_trace
    except Exception:
        return None
    rec = Recorder()
    verif_trace.set_sink(rec)
    return rec


def observe_schema(text, case):
    """text -> {"parse": "ok"/"error", "shapes": [...], "prefixes": [...]} with shape keys resolved"""
    try:
        pj = shexc.project(text)
    except shexc.ProjectError as e:
        return {"parse": "error:" + str(e)[:200], "shapes": [], "prefixes": []}
    labels = expected_labels(case)
    by_label = {}
    for k, l in labels:
        by_label.setdefault(l, []).append(k)

    # known finding KF.C05.shapesns: with a custom shapes_namespace the references keep the default namespace;
    # such a reference is resolved through the default namespace and marked "@~key"
    default_labels = {}
    if case["cfg"]["shapesNs"] != M.SHAPES_NS:
        for k, l in labels:
            if l.startswith(case["cfg"]["shapesNs"]):
                default_labels.setdefault(M.SHAPES_NS + l[len(case["cfg"]["shapesNs"]):], []).append(k)

    def kind(k):
        if k.startswith("@"):
            ks = by_label.get(k[1:])
            if ks:
                return "@" + ks[0]
            ks = default_labels.get(k[1:])
            return ("@~" + ks[0]) if ks else ("@?" + k[1:])
        return k
    shapes = []
    for sh in pj["shapes"]:
        ks = by_label.get(sh["label"])
        shapes.append({
            "key": ks[0] if ks else "?" + sh["label"], "label": sh["label"], "n": sh["n"], "stem": sh["stem"],
            "example": sh["example"],
            "tcs": [{"inv": tc["inv"], "p": tc["p"], "k": kind(tc["k"]) if tc["k"] else "", "ks": [kind(x) for x in tc["ks"]],
                     "card": tc["card"], "abs": tc["abs"], "ratio": tc["ratio"],
                     "com": [[kind(c[0]), c[1], c[2], c[3]] for c in tc["com"]],
                     "examples": tc["examples"]} for tc in sh["tcs"]]})
    return {"parse": "ok", "shapes": shapes, "prefixes": pj["prefixes"]}


def project_profile(rows, case):
    """profile snapshot of the `profiled` hook -> [[key, inverse, property, kind, cardinality (0 for '+'), count]] with shape references
    written "@" + key, or None when the run is outside what the clause models (shape-map keys, custom shapes namespace, two classes
    sharing a local name)"""
    cfg = case["cfg"]
    if cfg["mode"] not in ("all", "classes") or cfg["shapesNs"] != M.SHAPES_NS:
        return None
    by_label = {}
    for key, label in expected_labels(case):
        if label in by_label:
            return None
        by_label[label] = key
    out = []
    for key, inv, p, kind, card, count in rows:
        if kind.startswith("%<") and kind.endswith(">"):
            label = kind[2:-1]
            if label not in by_label:
                return None
            kind = "@" + by_label[label]
        out.append([key, bool(inv), p, kind, 0 if card == "+" else int(card), int(count)])
    return out


def project_statements(shapes):
    """`shexed` hook -> per shape the statements in their final order as [inverse, number of instances]"""
    return [[[bool(st["inv"]), int(st["n"])] for st in sh["statements"]] for sh in shapes]


def project_tracked(inst_dict):
    """_target_classes_dict snapshot -> sorted [[node kind, node id], key] pairs"""
    out = []
    for n, v in inst_dict.items():
        classes = v[0] if isinstance(v, tuple) else v
        node = ["BNode", n] if n.startswith("_:") else ["IRI", n]
        for c in classes:
            if c.startswith("<") and c.endswith(">"):
                c = c[1:-1]            # shape-map label given as <IRI>
            elif c.startswith("%"):
                c = c[1:]              # shape-map label given as a prefixed name
            out.append([node, c])
    return out


def run_case(case, graph_kwargs=None, want_text=False):
    if case["cfg"].get("instDoc") and graph_kwargs is None:
        # instances_file_input: the instances document and the graph go through files of their own
        import tempfile
        import shutil
        from shexer import consts as C
        d = tempfile.mkdtemp(prefix="shexer-verif-inst-")
        try:
            with open(os.path.join(d, "g.nt"), "w", encoding="utf8") as fh:
                fh.write(M.to_nt(M.from_json_graph(case["graph"])))
            with open(os.path.join(d, "i.nt"), "w", encoding="utf8") as fh:
                fh.write(M.to_nt(M.from_json_graph(case["cfg"]["instDoc"])))
            gk = {"instances_file_input": os.path.join(d, "i.nt"), "input_format": C.NT}
            how = case.get("instGraphAs", "file")      # the graph itself: a file, a list of files, a string, an rdflib Graph
            if how == "raw":
                gk["raw_graph"] = M.to_nt(M.from_json_graph(case["graph"]))
            elif how == "files":
                gk["graph_list_of_files_input"] = [os.path.join(d, "g.nt")]
            elif how == "rdflib" and not any(t[0] == "BNode" for tr in M.from_json_graph(case["graph"]) for t in (tr[0], tr[2])):
                gk["rdflib_graph"] = M.to_rdflib(M.from_json_graph(case["graph"]))
            else:
                gk["graph_file_input"] = os.path.join(d, "g.nt")
            return run_case(case, gk, want_text)
        finally:
            shutil.rmtree(d, ignore_errors=True)
    if case.get("channel") in ("files", "zips") and graph_kwargs is None:
        # the document cut into consecutive parts, one N-Triples file (or one zip archive) per part; the list names them in document
        # order, which is NOT the alphabetical order of the file names
        import tempfile
        import shutil
        import zipfile
        from shexer import consts as C
        T = M.from_json_graph(case["graph"])
        k = max(2, min(case.get("parts", 3), len(T))) if T else 1
        cuts = [round(i * len(T) / k) for i in range(k + 1)]
        names = ["part_z", "part_b", "part_m", "part_a", "part_q"][:k]
        d = tempfile.mkdtemp(prefix="shexer-verif-files-")
        try:
            paths = []
            for i, name in enumerate(names):
                text = M.to_nt(T[cuts[i]:cuts[i + 1]])
                if case["channel"] == "zips":
                    p = os.path.join(d, name + ".zip")
                    with zipfile.ZipFile(p, "w") as z:
                        z.writestr("m.nt", text)
                else:
                    p = os.path.join(d, name + ".nt")
                    with open(p, "w", encoding="utf8") as fh:
                        fh.write(text)
                paths.append(p)
            gk = {"graph_list_of_files_input": paths, "input_format": C.NT}
            if case["channel"] == "zips":
                gk["compression_mode"] = C.ZIP
            return run_case(case, gk, want_text)
        finally:
            shutil.rmtree(d, ignore_errors=True)
    from shexer.shaper import Shaper
    from shexer import consts as C
    cfg = case["cfg"]
    rec = install_recorder()
    res = {"id": case["id"], "status": "ok", "exc": "", "frame": "", "phase": ""}

    def build():
        return Shaper(**shaper_kwargs(case, graph_kwargs))
    st, shaper, exc, frame = call_guarded(build)
    if st != "ok":
        res.update(status=st, exc=exc, frame=frame, phase="ctor")
        return res
    fmt = C.SHEXC if cfg["format"] == "shexc" else C.SHACL_TURTLE
    thr = cfg["thr"][0] / cfg["thr"][1]
    for b in case.get("before", []):      # earlier calls on the same Shaper with other thresholds ([num, den] or a float); only the last call is judged
        bt = (b[0] / b[1]) if isinstance(b, list) else float(b)
        call_guarded(lambda: shaper.shex_graph(string_output=True, acceptance_threshold=bt, output_format=fmt), timeout=60)
    if cfg.get("sink") == "file":      # output file instead of returned string
        import tempfile
        import shutil
        d = tempfile.mkdtemp(prefix="shexer-verif-out-")
        try:
            path = os.path.join(d, "out.txt")
            st, _none, exc, frame = call_guarded(lambda: shaper.shex_graph(output_file=path, acceptance_threshold=thr, output_format=fmt), timeout=60)
            text = None
            if st == "ok":
                with open(path, encoding="utf8") as fh:
                    text = fh.read()
        finally:
            shutil.rmtree(d, ignore_errors=True)
    else:
        st, text, exc, frame = call_guarded(lambda: shaper.shex_graph(string_output=True, acceptance_threshold=thr, output_format=fmt), timeout=60)
    if st != "ok":
        res.update(status=st, exc=exc, frame=frame, phase="shex_graph")
        return res
    if want_text:
        res["text"] = text
    if cfg["format"] == "shexc":
        res["schema"] = observe_schema(text, case)
    if rec is not None:
        tr = rec.of("tracked")
        if tr:
            res["tracked"] = project_tracked(tr[0]["inst"])
        pr = rec.of("profiled")
        if pr:
            rows = project_profile(pr[0]["profile"], case)
            if rows is not None:
                res["profile"] = rows
        sx = rec.of("shexed")
        if sx:
            res["order"] = project_statements(sx[-1]["shapes"])
    return res


# ---------------------------------------------------------------------------------------------------
def _worker(args):
    fn, payload = args
    try:
        return fn(payload)
    except BaseException as e:      # a harness bug must not look like a verdict
        return {"id": payload.get("id") if isinstance(payload, dict) else None, "status": "harness-error",
                "exc": "%s: %s" % (type(e).__name__, e), "trace": traceback.format_exc()[-2000:]}


def run_many(fn, payloads, procs=None, chunk=20):
    """map fn over payloads in forked workers (fresh module state is not needed per case: sheXer's only
    module-level state is a disambiguation counter)"""
    procs = procs or min(16, os.cpu_count() or 4)
    if len(payloads) <= 4 or procs == 1:
        return [_worker((fn, p)) for p in payloads]
    ctx = multiprocessing.get_context("fork")
    with ctx.Pool(procs, maxtasksperchild=200) as pool:
        return pool.map(_worker, [(fn, p) for p in payloads], chunksize=chunk)


def run_cases(cases, **kw):
    return run_many(run_case, cases, **kw)
