"""C20 (constructor / call contract, spec/Config.tla) and C18 (call histories on the façade, spec/ShaperApi.tla)."""
import os
import gzip
import zipfile
import random
import shutil
import hashlib
import itertools
import tempfile
from harness import common, tlc, runner, gen, rdfmodel as M

# ------------------------------------------------------------------------------------------------ C20
SOURCES = ["graph_file_input", "graph_list_of_files_input", "raw_graph", "url_graph_input", "list_of_url_input",
           "url_endpoint", "rdflib_graph"]
LOCAL = ["graph_file_input", "graph_list_of_files_input", "raw_graph", "rdflib_graph"]
TARGETS = ["target_classes", "file_target_classes", "shape_map_raw", "shape_map_file"]
NT_TEXT = ('<http://e/a> <http://www.w3.org/1999/02/22-rdf-syntax-ns#type> <http://e/C> .\n'
           '<http://e/a> <http://e/p> "x" .\n<http://e/b> <http://www.w3.org/1999/02/22-rdf-syntax-ns#type> <http://e/C> .\n')
TTL_TEXT = ('@prefix e: <http://e/> .\n@prefix rdf: <http://www.w3.org/1999/02/22-rdf-syntax-ns#> .\n'
            'e:a rdf:type e:C ;\n  e:p "x" .\ne:b rdf:type e:C .\n')


_TEXTS = {}


def TEXTS():
    """the fixture graph in every input syntax the library declares (the content always matches the declared format:
    a parse error of the content is never what C20 judges)"""
    if not _TEXTS:
        import rdflib
        g = rdflib.Graph()
        g.parse(data=NT_TEXT, format="nt")
        _TEXTS.update({"nt": NT_TEXT, "turtle": TTL_TEXT, "turtle_iter": TTL_TEXT,
                       "tsv_spo": "".join(l[:-2].replace(" ", "\t", 2) + "\n" for l in NT_TEXT.split("\n") if l),
                       "n3": g.serialize(format="n3"), "xml": g.serialize(format="xml"), "json-ld": g.serialize(format="json-ld")})
    return _TEXTS


class Fixtures(object):
    """files the argument vectors point to (scratch directory, removed by close())"""

    def __init__(self):
        self.dir = tempfile.mkdtemp(prefix="shexer-verif-c20-")
        self.files = {}
        for fmt, text in sorted(TEXTS().items()):
            base = os.path.join(self.dir, "g." + fmt.replace("/", "_"))
            with open(base, "w") as fh:
                fh.write(text)
            with gzip.open(base + ".gz", "wt") as fh:
                fh.write(text)
            with zipfile.ZipFile(base + ".zip", "w") as z:
                z.writestr("inner." + fmt, text)
            import lzma
            with lzma.open(base + ".xz", "wt") as fh:
                fh.write(text)
            self.files[fmt] = base
        self.tfile = os.path.join(self.dir, "targets.txt")
        with open(self.tfile, "w") as fh:
            fh.write("<http://e/C>\n")
        self.smfile = os.path.join(self.dir, "sm.txt")
        with open(self.smfile, "w") as fh:
            fh.write("<http://e/a>@<http://e/S>\n")

    def close(self):
        shutil.rmtree(self.dir, ignore_errors=True)

    def graph_file(self, fmt, comp):
        base = self.files.get(fmt, self.files["nt"])
        return base + ("." + comp if comp in ("gz", "zip", "xz") else "")


def _value(v):
    """an unknown value is not always a string: 'list:x' stands for the list [x] (one mode per file, two kinds of examples ...),
    'dict' for a dictionary, 'int' for a number"""
    if v.startswith("list:"):
        return [v[5:]]
    return {"dict": {"mode": "zip"}, "int": 7}.get(v, v)


def ctor_kwargs(a, fx):
    import rdflib
    fmt = a["fmt"]
    kw = {}
    for s in a["src"]:
        if s == "graph_file_input":
            kw[s] = fx.graph_file(fmt, a["comp"])
        elif s == "graph_list_of_files_input":
            kw[s] = [fx.graph_file(fmt, a["comp"])]
        elif s == "raw_graph":
            kw[s] = TEXTS().get(fmt, NT_TEXT)
        elif s == "url_graph_input":
            kw[s] = "http://127.0.0.1:9/g.nt"
        elif s == "list_of_url_input":
            kw[s] = ["http://127.0.0.1:9/g.nt"]
        elif s == "url_endpoint":
            kw[s] = "http://127.0.0.1:9/sparql"
        elif s == "rdflib_graph":
            g = rdflib.Graph()
            g.parse(data=NT_TEXT, format="nt")
            kw[s] = g
    for t in a["tgt"]:
        kw[t] = {"target_classes": ["http://e/C"], "file_target_classes": fx.tfile,
                 "shape_map_raw": "<http://e/a>@<http://e/S>", "shape_map_file": fx.smfile}[t]
    for e in a.get("empty", []):          # present, with an empty value
        kw[e] = {"raw_graph": "", "rdflib_graph": rdflib.Graph(), "graph_list_of_files_input": [], "list_of_url_input": [],
                 "target_classes": [], "shape_map_raw": ""}[e]
    for flag in a.get("flags", []):      # options that are no target specification and no source: they change nothing about validity
        kw[flag] = True
    if a.get("inst"):         # an optional argument outside the seven sources: the instantiation triples come from a file of their own
        kw["instances_file_input"] = fx.graph_file("nt", a["comp"])       # (the compression mode applies to this file too)
    if a["allc"]:
        kw["all_classes_mode"] = True
    kw["input_format"] = _value(fmt)
    if a["comp"] != "none":
        kw["compression_mode"] = _value(a["comp"])
    if a["ex"] != "none":
        kw["examples_mode"] = _value(a["ex"])
    kw["disable_or_statements"] = a["disableOr"]
    kw["allow_redundant_or"] = a["redundantOr"]
    return kw


_FX = None


def _try_ctor(a):
    from shexer.shaper import Shaper
    global _FX
    if _FX is None:
        _FX = Fixtures()
        import atexit
        atexit.register(_FX.close)
    kw = ctor_kwargs(a, _FX)
    st, sh, exc, frame = runner.call_guarded(lambda: Shaper(**kw), timeout=10)
    res = {"id": a["id"], "ctor": "accept" if st == "ok" else ("ValueError" if exc == "ValueError" else "Other"),
           "ctor_exc": exc, "ctor_frame": frame, "call": "skipped", "call_exc": "", "call_frame": ""}
    if st == "ok" and len(a["src"]) == 1 and a["src"][0] in LOCAL and a["fmt"] in TEXTS():
        st2, txt, exc2, fr2 = runner.call_guarded(lambda: sh.shex_graph(string_output=True), timeout=10)
        res["call"] = "ok" if st2 == "ok" else ("ValueError" if exc2 == "ValueError" else "Other")
        res["call_exc"], res["call_frame"] = exc2, fr2
    return res


def _try_call(c):
    """the judged call is the last one of a short history on one Shaper: 'fresh' (first call), 'after_valid' (a valid call before),
    'repeat' (the same call once before), 'valid_then_repeat' (a valid call, then the same call once before); with source
    'unreadable' the graph file does not exist: argument checks must still come first"""
    from shexer.shaper import Shaper
    d = tempfile.mkdtemp(prefix="shexer-verif-c20c-")
    try:
        if c.get("source") == "unreadable":
            sh = Shaper(graph_file_input=os.path.join(d, "missing.nt"), all_classes_mode=True)
        else:
            sh = Shaper(raw_graph=NT_TEXT, all_classes_mode=True)
        kw = {"string_output": c["string"], "output_format": _value(c["ofmt"]), "acceptance_threshold": c["thrnum"] / c["thrden"]}
        if c["file"]:
            kw["output_file"] = os.path.join(d, "out.txt")
        if c.get("uml"):
            kw["to_uml_path"] = os.path.join(d, "out.png")
        valid = {"string_output": True, "acceptance_threshold": 0.5}
        before = {"fresh": [], "after_valid": [valid], "repeat": [kw], "valid_then_repeat": [valid, kw]}[c.get("history", "fresh")]
        for b in before:
            runner.call_guarded(lambda: sh.shex_graph(**b), timeout=10)
        st, v, exc, frame = runner.call_guarded(lambda: sh.shex_graph(**kw), timeout=10)
    finally:
        shutil.rmtree(d, ignore_errors=True)
    return {"id": c["id"], "outcome": "ok" if st == "ok" else ("ValueError" if exc == "ValueError" else "Other"), "exc": exc, "frame": frame}


def arg_vectors(tier, rnd):
    # invalid values include case variants and near misses of the valid identifiers, not only an arbitrary string
    fmts = ["nt", "turtle", "tsv_spo", "turtle_iter", "json-ld", "bogus", "NT", "Turtle", "list:nt"] if tier == "quick" else \
        ["nt", "tsv_spo", "n3", "turtle", "xml", "json-ld", "turtle_iter", "bogus", "NT", "Turtle", "N3", "ttl", "rdf/xml", "", "list:nt", "dict", "int"]
    comps = ["none", "gz", "zip", "bogus", "GZ", "list:gz"] if tier == "quick" else ["none", "gz", "zip", "xz", "bogus", "GZ", "Zip", "gzip", "", "list:gz", "dict", "int"]
    exs = ["none", "all", "bogus", "ALL", "list:all"] if tier == "quick" else ["none", "shape", "cons", "all", "bogus", "ALL", "Shape", "constraint", "", "list:all", "dict", "int"]
    srcsets = [()] + [(s,) for s in SOURCES] + list(itertools.combinations(SOURCES, 2))
    if tier == "thorough":
        srcsets += list(itertools.combinations(SOURCES, 3))
    out = []
    i = 0
    for ss in srcsets:
        for r in range(len(TARGETS) + 1):
            for ts in itertools.combinations(TARGETS, r):
                for allc in (False, True):
                    # sources x targets x all_classes is exhaustive; the independent conjuncts are crossed pairwise:
                    # each of them takes every value at least once against every (sources, targets) pair
                    combos = set()
                    for comp in comps:
                        combos.add((comp, "nt", "none", True, False))
                    for fmt in fmts:
                        combos.add(("none", fmt, "none", True, False))
                    for ex in exs:
                        combos.add(("none", "nt", ex, True, False))
                    for dor, ror in ((True, True), (False, False), (False, True)):
                        combos.add(("none", "nt", "none", dor, ror))
                    for _ in range(2 if tier == "quick" else 6):
                        combos.add((rnd.choice(comps), rnd.choice(fmts), rnd.choice(exs), rnd.random() < .5, rnd.random() < .5))
                    for comp, fmt, ex, dor, ror in sorted(combos):
                        out.append({"id": "a%d" % i, "src": list(ss), "tgt": list(ts), "allc": allc, "comp": comp, "fmt": fmt,
                                    "ex": ex, "disableOr": dor, "redundantOr": ror})
                        i += 1
    # "given" means "not None": an argument that holds an empty value (an empty string, an empty list, an rdflib Graph without
    # triples) is present all the same - alone it is the one source, next to another one it makes two
    EMPTYABLE = ["raw_graph", "rdflib_graph", "graph_list_of_files_input", "list_of_url_input"]
    for e in EMPTYABLE:
        out.append({"id": "a%d" % i, "src": [e], "tgt": [], "allc": True, "comp": "none", "fmt": "nt", "ex": "none", "disableOr": True,
                    "redundantOr": False, "empty": [e]})
        i += 1
        for other in SOURCES:
            if other == e:
                continue
            for empties in ([e], [e, other] if other in EMPTYABLE else [e]):
                out.append({"id": "a%d" % i, "src": sorted([e, other], key=SOURCES.index), "tgt": [], "allc": True, "comp": "none", "fmt": "nt",
                            "ex": "none", "disableOr": True, "redundantOr": False, "empty": empties})
                i += 1
    # optional arguments that are no graph source (instances_file_input) change nothing about which combinations are contradictory
    for s in SOURCES:
        for comp in ("none", "gz", "zip", "xz"):
            for allc, tg in ((True, []), (False, ["target_classes"])):
                out.append({"id": "a%d" % i, "src": [s], "tgt": tg, "allc": allc, "comp": comp, "fmt": "nt", "ex": "none", "disableOr": True,
                            "redundantOr": False, "inst": True})
                i += 1
    for ss in (["raw_graph", "url_endpoint"], []):
        out.append({"id": "a%d" % i, "src": ss, "tgt": [], "allc": True, "comp": "none", "fmt": "nt", "ex": "none", "disableOr": True,
                    "redundantOr": False, "inst": True})
        i += 1
    # boolean options of the constructor next to every subset of the target arguments: none of them is a target specification
    for flag in ("shape_qualifiers_mode", "inverse_paths", "detect_minimal_iri", "disable_comments", "remove_empty_shapes", "disable_endpoint_cache"):
        for r in range(len(TARGETS) + 1):
            for ts in itertools.combinations(TARGETS, r):
                for allc in (False, True):
                    out.append({"id": "a%d" % i, "src": ["raw_graph"], "tgt": list(ts), "allc": allc, "comp": "none", "fmt": "nt", "ex": "none",
                                "disableOr": True, "redundantOr": False, "flags": [flag]})
                    i += 1
    for tgts, empties in ((["target_classes", "shape_map_raw"], ["target_classes"]), (["target_classes", "shape_map_raw"], ["shape_map_raw"]),
                          (["target_classes", "file_target_classes"], ["target_classes"]), (["shape_map_raw", "shape_map_file"], ["shape_map_raw"])):
        for allc in (False, True):
            out.append({"id": "a%d" % i, "src": ["raw_graph"], "tgt": tgts, "allc": allc, "comp": "none", "fmt": "nt", "ex": "none",
                        "disableOr": True, "redundantOr": False, "empty": empties})
            i += 1
    return out


def check_c20(out, tier):
    rnd = random.Random(common.seed() + 20)
    r = tlc.check_model("MC_Config", "MC_C20_%s.cfg" % tier, workers=8, timeout=1800)
    out.add_l1("MC_Config/MC_C20_%s.cfg" % tier, r)
    for inv in r["violated"]:
        out.violation("L1.%s" % inv, {"model": "MC_Config"}, r["out"][-1500:])
    vectors = arg_vectors(tier, rnd)
    global _FX
    _FX = Fixtures()          # created here, inherited by the forked workers, removed here (workers skip their exit handlers)
    try:
        results = runner.run_many(_try_ctor, vectors, chunk=50)
    finally:
        _FX.close()
        _FX = None
    calls = []
    i = 0
    # thresholds as exact fractions: the grid, and values outside [0, 1] by less than any float noise would explain
    for thr, den in ((-1, 100), (0, 100), (1, 100), (50, 100), (100, 100), (101, 100), (1000000001, 1000000000), (-1, 1000000000),
                     (999999999, 1000000000)):
        for ofmt in ("ShEx", "Shacl", "bogus", "list:ShEx"):
            for string in (False, True):
                for file in (False, True):
                    for history in ("fresh", "after_valid", "repeat", "valid_then_repeat"):
                        calls.append({"id": "c%d" % i, "thrnum": thr, "thrden": den, "ofmt": ofmt, "string": string, "file": file, "uml": False,
                                      "history": history, "source": "ok"})
                        i += 1
                    # a UML image as a sink (needs a rendering server: only the calls whose other arguments are invalid are run -
                    # they must be rejected before anything is rendered)
                    if thr < 0 or thr > den or ofmt not in ("ShEx", "Shacl"):
                        calls.append({"id": "c%d" % i, "thrnum": thr, "thrden": den, "ofmt": ofmt, "string": string, "file": file, "uml": True,
                                      "history": "fresh", "source": "ok"})
                        i += 1
                    # an unreadable source: invalid call arguments must be reported as such, not masked by the I/O failure
                    if thr < 0 or thr > den or ofmt not in ("ShEx", "Shacl") or not (string or file):
                        calls.append({"id": "c%d" % i, "thrnum": thr, "thrden": den, "ofmt": ofmt, "string": string, "file": file, "uml": False,
                                      "history": "fresh", "source": "unreadable"})
                        i += 1
    cres = runner.run_many(_try_call, calls, chunk=10)
    traces = []
    for a, r_ in zip(vectors, results):
        if r_.get("status") == "harness-error":
            raise common.Machinery("harness error: %s\n%s" % (r_.get("exc"), r_.get("trace", "")))
        traces.append({"id": a["id"], "kind": "ctor", "a": {k: a[k] for k in a if k not in ("id", "empty", "inst", "flags")}, "ctor": r_["ctor"], "call": r_["call"],
                       "c": {k: calls[0][k] for k in calls[0] if k not in ("id", "history", "source")}, "outcome": ""})
    for c, r_ in zip(calls, cres):
        if r_.get("status") == "harness-error":
            raise common.Machinery("harness error: %s\n%s" % (r_.get("exc"), r_.get("trace", "")))
        traces.append({"id": c["id"], "kind": "call", "a": {k: vectors[0][k] for k in vectors[0] if k not in ("id", "empty", "inst", "flags")}, "ctor": "", "call": "",
                       "c": {k: c[k] for k in c if k not in ("id", "history", "source")}, "outcome": r_["outcome"], "history": c["history"] + "/" + c["source"]})
    verdicts, stats = tlc.validate_batch("Trace_Config", "Trace_Config.cfg", traces, procs=12, chunk=None)
    out.traces += len(traces)
    out.evaluations += len(traces)
    out.exhaustive = True
    out.notes["monitor_states"] = stats["states"]
    by = {r_["id"]: r_ for r_ in results}
    by.update({r_["id"]: r_ for r_ in cres})
    nvalid = 0
    for t in traces:
        v = verdicts[t["id"]]
        if v["info"].get("valid"):
            nvalid += 1
        out.nontrivial.add(t["id"])
        r_ = by[t["id"]]
        detail = "args=%s observed=%s" % (t["a"] if t["kind"] == "ctor" else t["c"], {k: r_[k] for k in r_ if k != "id"})
        out.judge_clauses([c for c in v["clauses"] if not c.startswith("drift")],
                          {"kind": "c20", "trace": t}, lambda c: c.startswith("C20."), detail=detail)
        if t["kind"] == "ctor" and v["info"].get("valid"):
            out.sample({"args": t["a"], "ctor": t["ctor"], "call": t["call"], "clauses": v["clauses"]})
    out.notes["valid_vectors"] = nvalid
    out.notes["drift_vs_ctor_transliteration"] = sum(1 for v in verdicts.values() if "drift.ctor" in v["clauses"])
    return ("constructor argument vectors: every subset of <= 2 (thorough: <= 3) of the 7 graph sources x every subset of the 4 target "
            "arguments x all_classes_mode, crossed with compression / input format / examples mode / or-flags (each value at least once "
            "per (sources, targets) pair + random combinations); call arguments: thresholds {-0.01, 0, .01, .5, 1, 1.01} x output formats "
            "x sinks; each vector is passed to the real constructor (and shex_graph for local sources) and judged against Config!Valid",
            {"level": "model_checking"})


def replay_c20(d):
    out = common.Outcome("C20", "quick")
    t = d["case"]["trace"]
    if t["kind"] == "ctor":
        a = dict(t["a"])
        a["id"] = "replay"
        r_ = _try_ctor(a)
        t = dict(t, id="replay", ctor=r_["ctor"], call=r_["call"])
    else:
        c = dict(t["c"])
        c["id"] = "replay"
        r_ = _try_call(c)
        t = dict(t, id="replay", outcome=r_["outcome"])
    verdicts, _ = tlc.validate_batch("Trace_Config", "Trace_Config.cfg", [t])
    out.traces = out.evaluations = 1
    out.judge_clauses([c for c in verdicts["replay"]["clauses"] if not c.startswith("drift")], {"kind": "c20", "trace": t},
                      lambda c: c.startswith("C20."), detail=str(r_))
    return common.finish(out, rule="replay")


def replay(prop, d):
    if prop == "C20":
        return replay_c20(d)
    return replay_c18(d)


REGISTRY = {"C20": check_c20}


# ------------------------------------------------------------------------------------------------ C18
C18_GRAPH = None


def c18_graph():
    """small graph with IRI / BNode / shape-reference alternatives so that thresholds 0, .5 and 1 give different schemas"""
    def I(x):
        return M.iri(M.EX + x)
    T = M.RDF_TYPE
    C, D = I("C"), I("D")
    return [(I("a"), T, C), (I("b"), T, C), (I("c"), T, C), (I("d"), T, D),
            (I("a"), M.EX + "p", I("d")), (I("b"), M.EX + "p", I("d")), (I("a"), M.EX + "q", M.lit("x")),
            (I("a"), M.EX + "r", M.lit("1", M.XSD_INTEGER)), (I("b"), M.EX + "r", M.lit("2", M.XSD_INTEGER)),
            (I("c"), M.EX + "r", M.lit("3", M.XSD_INTEGER)), (I("c"), M.EX + "q", M.lit("y", lang="en")),
            (I("d"), M.EX + "p", I("a"))]


def c18_graph_odd():
    """as c18_graph, with instances in a namespace that holds a non-ASCII character and a percent-escape (what detect_minimal_iri
    prints as stem), a property with a percent-escape, an empty literal and a literal with U+2028"""
    ns = M.EX + "a\u00f1o%20x/"
    def I(x):
        return M.iri(ns + x)
    T = M.RDF_TYPE
    C, D = M.iri(M.EX + "C"), M.iri(M.EX + "D")
    return [(I("a"), T, C), (I("b"), T, C), (I("c"), T, C), (I("d"), T, D),
            (I("a"), M.EX + "p", I("d")), (I("b"), M.EX + "p", I("d")), (I("a"), M.EX + "caf%C3%A9", M.lit("")),
            (I("a"), M.EX + "r", M.lit("1", M.XSD_INTEGER)), (I("b"), M.EX + "r", M.lit("2", M.XSD_INTEGER)),
            (I("c"), M.EX + "r", M.lit("3", M.XSD_INTEGER)), (I("c"), M.EX + "caf%C3%A9", M.lit("y\u2028z", lang="en")),
            (I("d"), M.EX + "p", I("a"))]


def c18_graph_multi():
    """objects that belong to two shapes (a disjunction when OR statements are on), links in both directions, several values"""
    def I(x):
        return M.iri(M.EX + x)
    T = M.RDF_TYPE
    C, D = I("C"), I("D")
    return [(I("a"), T, C), (I("b"), T, C), (I("c"), T, C), (I("d"), T, D), (I("e"), T, D), (I("e"), T, C),
            (I("a"), M.EX + "p", I("d")), (I("a"), M.EX + "p", I("e")), (I("b"), M.EX + "p", I("e")), (I("c"), M.EX + "p", I("a")),
            (I("d"), M.EX + "p", I("a")), (I("a"), M.EX + "r", M.lit("1", M.XSD_INTEGER)), (I("a"), M.EX + "r", M.lit("2", M.XSD_INTEGER)),
            (I("b"), M.EX + "r", M.lit("3", M.XSD_INTEGER)), (I("e"), M.EX + "q", M.lit("x"))]


# constructor option profiles under which call histories are replayed (the contract does not depend on them)
PROFILES = {"or": {"disable_or_statements": False}, "or_redundant": {"disable_or_statements": False, "allow_redundant_or": True},
            "inverse": {"inverse_paths": True}, "strict": {"all_instances_are_compliant_mode": False, "keep_less_specific": False},
            "noexact": {"disable_exact_cardinality": True, "allow_opt_cardinality": False}, "cap": {"instances_cap": 2},
            "ratio2": {"decimals": 2, "disable_comments": True}, "dec2": {"decimals": 2}, "dec0": {"decimals": 0},
            "abs": {"instances_report_mode": "absolute"},
            # every predicate of the graph in an ignored namespace: instances, but an empty profile (ShaperApi's graph kind "void")
            "void": {"namespaces_to_ignore": [M.EX, M.RDF, "http://xmlns.com/foaf/0.1/", "http://purl.org/dc/terms/"]}}


def _profile_of(payload, who):
    """constructor option profile of one Shaper of the history: two Shapers of one process may be configured differently"""
    return (payload.get("profiles") or {}).get(who, payload.get("profile", ""))


def big_graph(n_classes=2300):
    T = []
    for i in range(n_classes):
        n = M.iri(M.EX + "n%d" % i)
        T.append((n, M.RDF_TYPE, M.iri(M.EX + "K%d" % i)))
        T.append((n, M.EX + "p", M.lit("v")))
    return T


ALPHABET = [{"kind": "shex", "fmt": f, "sink": s, "thr": t} for f in ("shexc", "shacl") for s in ("string", "file") for t in (0, 50, 100)] + \
           [{"kind": "profile", "fmt": "json", "sink": "string", "thr": 0}] + \
           [{"kind": "shex", "fmt": "shexc", "sink": "string", "thr": 501}]       # (appended: the fixed histories below name letters by index)
# threshold codes of the specification -> the float handed to shex_graph; 501 is a threshold a rounding error above 50 %
THR_VALUE = {501: 0.5 * (1 + 4e-10)}


def _canon(fmt, text):
    if text is None:
        return "none"
    if fmt == "shacl":
        import rdflib
        from rdflib.compare import to_isomorphic
        g = rdflib.Graph()
        g.parse(data=text, format="turtle")
        return "iso:" + str(to_isomorphic(g).internal_hash())
    return hashlib.sha256(text.encode("utf8")).hexdigest()


def _do_call(shaper, c, workdir):
    from shexer import consts as C
    if c["kind"] == "profile":
        st, v, exc, frame = runner.call_guarded(lambda: shaper.profile_graph(string_output=True), timeout=20)
        return st, (v if st == "ok" else None), None, exc, frame
    fmt = C.SHEXC if c["fmt"] == "shexc" else C.SHACL_TURTLE
    thr = THR_VALUE.get(c["thr"], c["thr"] / 100)
    if c["sink"] == "string":
        st, v, exc, frame = runner.call_guarded(lambda: shaper.shex_graph(string_output=True, output_format=fmt, acceptance_threshold=thr), timeout=20)
        return st, (v if st == "ok" else None), None, exc, frame
    # the user's output path: the same one for every file call of a history, and something may already be there (a call must
    # leave exactly its own text in the file)
    path = os.path.join(workdir, "out.txt")
    if not os.path.exists(path) and random.random() < .5:
        with open(path, "w", encoding="utf8") as fh:
            fh.write("# left over from an earlier run\n<http://example.org/old> { }\n")
    st, v, exc, frame = runner.call_guarded(lambda: shaper.shex_graph(output_file=path, output_format=fmt, acceptance_threshold=thr), timeout=20)
    text = None
    if st == "ok" and os.path.exists(path):
        with open(path, encoding="utf8") as fh:
            text = fh.read()
    return st, text, path, exc, frame


TTL_PREFIXES = "@prefix foaf: <http://xmlns.com/foaf/0.1/> .\n@prefix ex: <http://example.org/> .\n@prefix dc: <http://purl.org/dc/terms/> .\n"


def base_dict(payload):
    d = {M.EX: "ex"}
    if payload.get("shapes_in_dict"):
        d[M.SHAPES_NS] = "sx"
    return d


def _graph_of(payload):
    import rdflib
    g = rdflib.Graph()
    g.parse(data=payload["nt"], format="nt")
    return g


def _ctor_kwargs(payload, nsdict, who="A", graph=None):
    from shexer import consts as C
    kw = dict(raw_graph=payload["nt"], input_format=C.NT, all_classes_mode=True, instances_report_mode=C.MIXED_INSTANCES, namespaces_dict=nsdict)
    if payload.get("rdflibShared"):      # the graph as an rdflib Graph object - the caller's own object, the same one for every Shaper
        del kw["raw_graph"], kw["input_format"]
        kw["rdflib_graph"] = graph if graph is not None else _graph_of(payload)
    if who in payload.get("noDict", ""):  # this Shaper is given no namespaces of its own
        kw["namespaces_dict"] = None
    if who in payload.get("turtle", ""):      # rdflib-parsed channel: the parser reports the prefixes bound in the document
        kw["raw_graph"] = TTL_PREFIXES + payload["nt"]
        kw["input_format"] = C.TURTLE
    if payload.get("examples"):
        kw["examples_mode"] = C.ALL_EXAMPLES
    if payload.get("miniri"):
        kw["detect_minimal_iri"] = True
    for k_, v_ in PROFILES.get(_profile_of(payload, who), {}).items():
        kw[k_] = {"absolute": C.ABSOLUTE_INSTANCES}.get(v_, v_) if k_ == "instances_report_mode" else v_
    return kw


_FRESH = {}


def _fresh(payload, c, who="A"):
    """what a brand-new Shaper (own pristine dictionary) returns for this call: the Fresh of spec/ShaperApi.tla"""
    from shexer.shaper import Shaper
    key = (payload["gid"], payload.get("rdflibShared", False), who in payload.get("noDict", ""),
           payload.get("examples", False), who in payload.get("turtle", ""), payload.get("shapes_in_dict", False),
           payload.get("miniri", False), _profile_of(payload, who), c["kind"], c["fmt"], c["thr"])
    if key not in _FRESH:
        sh = Shaper(**_ctor_kwargs(payload, base_dict(payload), who))
        d = tempfile.mkdtemp(prefix="shexer-verif-c18f-")
        try:
            st, text, _p, exc, frame = _do_call(sh, dict(c, sink="string"), d)
        finally:
            shutil.rmtree(d, ignore_errors=True)
        _FRESH[key] = (st, _canon(c["fmt"], text) if st == "ok" else "raise:" + exc)
    return _FRESH[key]


def _run_sequence(payload):
    """payload: {id, gid, nt, seq: [(shaper, call)], shared: bool, examples: bool}"""
    from shexer.shaper import Shaper
    d = tempfile.mkdtemp(prefix="shexer-verif-c18-")
    events = []
    try:
        caller_ns = base_dict(payload)
        shapers = {}
        shared_graph = _graph_of(payload) if payload.get("rdflibShared") else None
        for who, c in payload["seq"]:
            if who not in shapers:
                nsd = caller_ns if payload.get("shared") else dict(caller_ns)
                st, sh, exc, frame = runner.call_guarded(lambda: Shaper(**_ctor_kwargs(payload, nsd, who, shared_graph)), timeout=20)
                if st != "ok":
                    events.append(dict(c, shaper=who, status=False, sameAsFresh=False, fileSame=True, exc=exc, frame=frame))
                    continue
                shapers[who] = sh
            st, text, path, exc, frame = _do_call(shapers[who], c, d)
            fst, fcanon = _fresh(payload, c, who)
            same = (st == "ok" and fst == "ok" and _canon(c["fmt"], text) == fcanon)
            events.append(dict(c, shaper=who, status=(st == "ok"), sameAsFresh=same, fileSame=True, exc=exc, frame=frame))
        events_caller = sorted(caller_ns.values())
    finally:
        shutil.rmtree(d, ignore_errors=True)
    return {"id": payload["id"], "events": events, "callerNs": events_caller}


def sequences(tier, rnd):
    out = []
    T = c18_graph()
    nt = M.to_nt(T)
    i = 0
    # every sequence of length <= 3 over the 13-letter alphabet on one Shaper (thorough) / all of length <= 2 + sampled length 3
    for n in (1, 2, 3):
        seqs = list(itertools.product(range(len(ALPHABET)), repeat=n))
        if tier == "quick" and n == 3:
            seqs = rnd.sample(seqs, 400)
        for sq in seqs:
            out.append({"id": "s%d" % i, "gid": "small", "nt": nt, "seq": [("A", ALPHABET[j]) for j in sq], "shared": False})
            i += 1
    # two Shapers built from the same namespaces dictionary, interleaved calls
    shex = [a for a in ALPHABET if a["kind"] == "shex" and a["sink"] == "string"]
    for n in (2, 3):
        combos = list(itertools.product(range(len(shex)), ("A", "B"), repeat=n))
        combos = rnd.sample(combos, min(len(combos), 150 if tier == "quick" else 1500))
        for cb in combos:
            seq = [(cb[2 * k + 1], shex[cb[2 * k]]) for k in range(n)]
            out.append({"id": "s%d" % i, "gid": "small", "nt": nt, "seq": seq, "shared": True})
            i += 1
    # shared dictionary x rdflib-parsed input (the parser adds the document's prefixes to the dictionary it is given) x a
    # caller dictionary that already holds the shapes namespace; calls on A before / after B is built
    for shapes_in_dict in (False, True):
        for turtle in ("", "A", "B", "AB"):      # which Shapers read the Turtle rendering (with @prefix lines) of the graph
            for sq in [(("A", 0), ("B", 0)), (("A", 0), ("B", 6)), (("A", 6), ("B", 0), ("A", 0)), (("B", 1), ("A", 0), ("B", 0)), (("A", 12), ("B", 0))]:
                out.append({"id": "s%d" % i, "gid": "small", "nt": nt, "seq": [(w, ALPHABET[j]) for w, j in sq], "shared": True,
                            "turtle": turtle, "shapes_in_dict": shapes_in_dict})
                i += 1
    # detect_minimal_iri / examples mode: repeated calls with other thresholds / formats, on the plain graph and on the graph whose
    # IRIs and literals hold percent-escapes, non-ASCII characters, an empty string
    ont = M.to_nt(c18_graph_odd())
    for gid, text in (("small", nt), ("odd", ont)):
        for sq in [(0, 1), (1, 0), (2, 0), (0, 6), (6, 0, 2), (0, 1, 2, 0), (1, 7, 2)]:
            out.append({"id": "s%d" % i, "gid": gid, "nt": text, "seq": [("A", ALPHABET[j]) for j in sq], "shared": False, "miniri": True})
            i += 1
        for sq in [(0, 0), (0, 6), (6, 0), (0, 1), (0, 0, 0)]:
            out.append({"id": "s%d" % i, "gid": gid, "nt": text, "seq": [("A", ALPHABET[j]) for j in sq], "shared": False, "examples": True})
            i += 1
    for sq in rnd.sample(list(itertools.product(range(len(ALPHABET)), repeat=2)), 40):
        out.append({"id": "s%d" % i, "gid": "odd", "nt": ont, "seq": [("A", ALPHABET[j]) for j in sq], "shared": False})
        i += 1
    # the same histories under other constructor options (disjunctions, inverse paths, ...) on a graph whose objects belong to
    # two shapes; SHACL has no encoding for disjunctions (KF.C04.shacl_or): ShExC calls only for the OR profiles
    mnt = M.to_nt(c18_graph_multi())
    for prof in sorted(PROFILES):
        letters = [j for j, a in enumerate(ALPHABET) if not (prof.startswith("or") and a["fmt"] == "shacl")]
        seqs = [(j, j) for j in letters if ALPHABET[j]["kind"] == "shex"] + rnd.sample(list(itertools.product(letters, repeat=2)), 12) + \
               rnd.sample(list(itertools.product(letters, repeat=3)), 8)
        for sq in seqs:
            out.append({"id": "s%d" % i, "gid": "multi", "nt": mnt, "seq": [("A", ALPHABET[j]) for j in sq], "shared": False, "profile": prof})
            i += 1
    # two Shapers of one process configured differently (decimals regimes, report modes, comments), used in turns: what one
    # prints does not depend on the other having been used in between
    for pa, pb in [("dec2", ""), ("", "dec2"), ("dec0", "dec2"), ("dec2", "dec0"), ("abs", ""), ("", "abs"), ("ratio2", ""), ("strict", "noexact")]:
        for sq in [(("A", 0), ("B", 0), ("A", 0)), (("A", 0), ("B", 6), ("A", 0)), (("B", 0), ("A", 0), ("B", 6), ("A", 6)), (("A", 1), ("B", 0), ("A", 1))]:
            out.append({"id": "s%d" % i, "gid": "small", "nt": nt, "seq": [(w, ALPHABET[j]) for w, j in sq], "shared": rnd.random() < .5,
                        "profiles": {"A": pa, "B": pb}})
            i += 1
    # two Shapers given the same rdflib Graph object, one with a namespaces dictionary and one without: the graph is an argument,
    # what one Shaper does with it must not show in the other
    for sq in [(("A", 0), ("B", 0)), (("B", 0), ("A", 0), ("B", 0)), (("A", 6), ("B", 0), ("A", 0)), (("A", 0), ("B", 6), ("B", 0)), (("A", 12), ("B", 0))]:
        for nod in ("B", "A", ""):
            out.append({"id": "s%d" % i, "gid": "small", "nt": nt, "seq": [(w, ALPHABET[j]) for w, j in sq], "shared": False,
                        "rdflibShared": True, "noDict": nod})
            i += 1
    # thresholds a rounding error apart on one Shaper, in both orders and around other calls (ShaperApi!ThrHit)
    for sq in [(1, 13), (13, 1), (1, 13, 1), (13, 1, 13), (0, 13, 1), (1, 12, 13), (13, 7), (7, 13), (2, 13, 1)]:
        out.append({"id": "s%d" % i, "gid": "small", "nt": nt, "seq": [("A", ALPHABET[j]) for j in sq], "shared": False})
        i += 1
    # a Shaper whose profile is empty although it has instances, asked several times (ShaperApi!NeedProfile)
    for sq in [(0, 0), (0, 1), (1, 0, 2), (0, 12), (12, 0), (12, 12, 0), (6, 0), (0, 6, 0), (0, 13, 1)]:
        out.append({"id": "s%d" % i, "gid": "small", "nt": nt, "seq": [("A", ALPHABET[j]) for j in sq], "shared": False, "profile": "void"})
        i += 1
    # > 10 000 lines: the serializer flushes its buffer every 5 000 lines
    bnt = M.to_nt(big_graph(2300 if tier == "quick" else 5200))
    for sq in [(0, 3), (3, 0), (3, 3)]:
        out.append({"id": "s%d" % i, "gid": "big", "nt": bnt, "seq": [("A", ALPHABET[j]) for j in sq], "shared": False})
        i += 1
    return out


def check_c18(out, tier):
    rnd = random.Random(common.seed() + 18)
    r = tlc.check_model("MC_ShaperApi", "MC_C18_%s.cfg" % tier, workers=8, timeout=1800)
    out.add_l1("MC_ShaperApi/MC_C18_%s.cfg" % tier, r)
    for inv in r["violated"]:
        out.violation("L1.%s" % inv, {"model": "MC_ShaperApi"}, r["out"][-1500:])
    # call histories of any length: the log is a history variable hidden behind a VIEW, the remaining state space is finite
    r = tlc.check_model("MC_ShaperApi", "MC_C18_unbounded.cfg", workers=4, timeout=900)
    out.add_l1("MC_ShaperApi/MC_C18_unbounded.cfg", r)
    # two plausible rewritings of the memo tests (math.isclose on the threshold, truthiness of the profile) must be rejected by the
    # model: otherwise it no longer says anything about those tests
    for anti in ("MC_C18_anti_isclose.cfg", "MC_C18_anti_truthy.cfg"):
        ra = tlc.check_model("MC_ShaperApi", anti, workers=4, timeout=600)
        if "HistoryFree" not in ra["violated"]:
            raise common.Machinery("%s was expected to violate HistoryFree (the model no longer tells the wrong memo tests apart)" % anti)
    for inv in r["violated"]:
        out.violation("L1.%s" % inv, {"model": "MC_ShaperApi"}, r["out"][-1500:])
    seqs = sequences(tier, rnd)
    results = runner.run_many(_run_sequence, seqs, chunk=20)
    traces = []
    for s, r_ in zip(seqs, results):
        if r_.get("status") == "harness-error":
            raise common.Machinery("harness error: %s\n%s" % (r_.get("exc"), r_.get("trace", "")))
        traces.append({"id": s["id"], "events": [{"kind": e["kind"], "fmt": e["fmt"], "sink": e["sink"], "thr": e["thr"], "shaper": e["shaper"],
                                                   "status": e["status"], "sameAsFresh": e["sameAsFresh"], "fileSame": e["fileSame"]}
                                                  for e in r_["events"]]})
    verdicts, stats = tlc.validate_batch("Trace_ShaperApi", "Trace_ShaperApi.cfg", traces, procs=8)
    out.traces += len(traces)
    out.evaluations += sum(len(t["events"]) for t in traces)
    out.exhaustive = (tier == "thorough")
    out.notes["monitor_states"] = stats["states"]
    for s, r_ in zip(seqs, results):
        v = verdicts[s["id"]]
        if len(s["seq"]) >= 2:
            out.nontrivial.add(s["id"])
        if any(c.startswith("MACHINERY") for c in v["clauses"]):
            raise common.Machinery("C18 trace %s: %s" % (s["id"], v["clauses"]))
        detail = "sequence=%s shared_dict=%s examples=%s events=%s" % (
            [(w, c["kind"], c["fmt"], c["sink"], c["thr"]) for w, c in s["seq"]], s.get("shared"), s.get("examples", False),
            [(e["status"], e["sameAsFresh"], e.get("exc")) for e in r_["events"]])
        case = {"kind": "c18", "seq": {k: s[k] for k in s if k not in ("nt",)}}
        out.judge_clauses(v["clauses"], case, lambda c: c.startswith("C18."), detail=detail)
        out.sample({"sequence": [(w, c["kind"], c["fmt"], c["sink"], c["thr"]) for w, c in s["seq"]], "shared_dict": s.get("shared"),
                    "clauses": v["clauses"]})
    return ("call sequences on real Shapers: every sequence of length <= 2 (thorough: <= 3) over the 13-letter alphabet {shex_graph(ShExC|SHACL, "
            "string|file, threshold 0|.5|1), profile_graph} + sampled length 3; interleavings on two Shapers built from one namespaces "
            "dictionary; examples_mode repetitions; an output of > 10 000 lines (flush boundary); each call's text (ShExC bytes / SHACL up to "
            "graph isomorphism, file content for file sinks) is compared with what a brand-new Shaper returns for the same arguments")


def replay_c18(d):
    out = common.Outcome("C18", "quick")
    s = dict(d["case"]["seq"])
    s["nt"] = M.to_nt({"small": c18_graph, "odd": c18_graph_odd, "multi": c18_graph_multi}.get(s["gid"], big_graph)())
    s["seq"] = [tuple(x) for x in s["seq"]]
    r_ = _run_sequence(s)
    t = {"id": s["id"], "events": [{"kind": e["kind"], "fmt": e["fmt"], "sink": e["sink"], "thr": e["thr"], "shaper": e["shaper"],
                                    "status": e["status"], "sameAsFresh": e["sameAsFresh"], "fileSame": e["fileSame"]} for e in r_["events"]]}
    verdicts, _ = tlc.validate_batch("Trace_ShaperApi", "Trace_ShaperApi.cfg", [t])
    out.traces = 1
    out.evaluations = len(t["events"])
    out.judge_clauses(verdicts[s["id"]]["clauses"], d["case"], lambda c: c.startswith("C18."), detail=str(r_["events"]))
    return common.finish(out, rule="replay")


REGISTRY["C18"] = check_c18
