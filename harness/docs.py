"""C05 (well-formed, closed schemas) and C11 (ShExC / SHACL equivalence): spec/ShExCDoc.tla, spec/SchemaEquiv.tla."""
import random
from harness import common, tlc, runner, gen, pipeline, shexc, rdfmodel as M

SH = "http://www.w3.org/ns/shacl#"
RDF_TYPE = M.RDF_TYPE


def project_shacl(text):
    """Turtle text -> {parsed, shapes: [{iri, cls, props: [{inv, p, res, min, max}]}], nodeShapes, nodeRefs, pathCounts}"""
    import rdflib
    g = rdflib.Graph()
    try:
        g.parse(data=text, format="turtle")
    except Exception:
        return {"parsed": False, "shapes": [], "nodeShapes": [], "nodeRefs": [], "pathCounts": []}
    S = rdflib.Namespace(SH)
    node_shapes = sorted(str(s) for s in g.subjects(rdflib.RDF.type, S.NodeShape))
    node_refs = sorted({str(o) for o in g.objects(None, S.node)})
    shapes = []
    path_counts = []
    for ns in g.subjects(rdflib.RDF.type, S.NodeShape):
        cls = [str(o) for o in g.objects(ns, S.targetClass)]
        props = []
        for ps in g.objects(ns, S.property):
            direct = list(g.objects(ps, S.path))
            inverse = [p for inner in g.objects(ps, S.property) for p in g.objects(inner, S.inversePath)]
            path_counts.append(len(direct) + len(inverse))
            inv = bool(inverse) and not direct
            path = str((direct or inverse or [""])[0])
            res = ["none", ""]
            dts = list(g.objects(ps, S.dataType)) + list(g.objects(ps, S.datatype))
            kinds = list(g.objects(ps, S.nodeKind))
            nodes = list(g.objects(ps, S.node))
            ins = list(g.objects(ps, S["in"]))
            nres = len(dts) + len(kinds) + len(nodes) + len(ins)
            if dts:
                res = ["dt", str(dts[0])]
            elif kinds:
                res = ["kind", str(kinds[0])[len(SH):]]
            elif nodes:
                res = ["node", str(nodes[0])]
            elif ins:
                items = list(rdflib.collection.Collection(g, ins[0]))
                one = items[0] if len(items) == 1 else None
                res = ["in", ("_:" if isinstance(one, rdflib.BNode) else str(one)) if one is not None else "?%d" % len(items)]
            if nres > 1:
                res = ["several", str(nres)]

            def cnt(pred):
                v = list(g.objects(ps, pred))
                return int(v[0]) if v else -1
            props.append({"inv": inv, "p": path, "res": res, "min": cnt(S.minCount), "max": cnt(S.maxCount)})
        shapes.append({"iri": str(ns), "cls": cls[0] if cls else "", "props": props})
    return {"parsed": True, "shapes": shapes, "nodeShapes": node_shapes, "nodeRefs": node_refs, "pathCounts": path_counts}


def _both_outputs(case):
    """one Shaper, both serializations"""
    from shexer.shaper import Shaper
    from shexer import consts as C
    res = {"id": case["id"], "status": "ok", "exc": "", "frame": "", "shexc": None, "shacl": None}
    st, sh, exc, frame = runner.call_guarded(lambda: Shaper(**runner.shaper_kwargs(case)))
    if st != "ok":
        res.update(status=st, exc=exc, frame=frame)
        return res
    thr = case["cfg"]["thr"][0] / case["cfg"]["thr"][1]
    for _ in range(case.get("repeat", 0)):      # every document a Shaper emits: also the one of a call it has answered before
        runner.call_guarded(lambda: sh.shex_graph(string_output=True, acceptance_threshold=thr, output_format=C.SHEXC))
    st, t1, exc, frame = runner.call_guarded(lambda: sh.shex_graph(string_output=True, acceptance_threshold=thr, output_format=C.SHEXC))
    if st != "ok":
        res.update(status=st, exc=exc, frame=frame)
        return res
    res["shexc"] = t1
    if case.get("want_shacl", True):
        st, t2, exc, frame = runner.call_guarded(lambda: sh.shex_graph(string_output=True, acceptance_threshold=thr, output_format=C.SHACL_TURTLE))
        if st != "ok":
            res.update(status=st, exc=exc, frame=frame)
            return res
        res["shacl"] = t2
    return res


def make_doc_trace(case, r, want):
    toks, lexerr = shexc.lex(r["shexc"]) if r["shexc"] is not None else ([], -1)
    shex = []
    if r["shexc"] is not None:
        try:
            pj = shexc.project(r["shexc"])
            cls_of = {l: k for k, l in runner.expected_labels(case)}
            for s in pj["shapes"]:
                shex.append({"label": s["label"], "cls": cls_of.get(s["label"], ""),
                             "tcs": [{"inv": t["inv"], "p": t["p"], "k": t["k"], "card": t["card"]} for t in s["tcs"] if not t["ks"]]})
        except shexc.ProjectError:
            shex = []
    shacl = project_shacl(r["shacl"]) if r["shacl"] is not None else {"parsed": True, "shapes": [], "nodeShapes": [], "nodeRefs": [], "pathCounts": []}
    return {"id": case["id"], "tokens": toks, "lexerr": lexerr, "hasShex": r["shexc"] is not None, "hasShacl": r["shacl"] is not None,
            "shex": shex, "shacl": shacl, "instProp": case["cfg"]["instProp"], "want": want}


def judge_docs(out, cases, want, mine, label=""):
    results = runner.run_many(_both_outputs, cases)
    traces = []
    live = []
    for c, r in zip(cases, results):
        if r.get("status") == "harness-error":
            raise common.Machinery("harness error: %s\n%s" % (r.get("exc"), r.get("trace", "")))
        if r["status"] != "ok":
            if pipeline.known_crash(c, r):
                out.skip("crashed at a call site recorded as a known finding of C04: %s@%s" % (r["exc"], r["frame"]))
            else:
                out.violation("%s.%s:%s@%s" % (out.prop, r["status"], r["exc"], r["frame"]), c, "no document to judge " + label)
            continue
        traces.append(make_doc_trace(c, r, want))
        live.append((c, r))
    verdicts, stats = tlc.validate_batch("Trace_Docs", "Trace_Docs.cfg", traces, procs=10, xss="32m")
    out.traces += len(traces)
    out.evaluations += len(traces)
    out.notes["monitor_states"] = out.notes.get("monitor_states", 0) + stats["states"]
    for (c, r), t in zip(live, traces):
        v = verdicts[c["id"]]
        sig = pipeline.signature(c)
        if sig:
            out.nontrivial.add(sig)
        out.judge_clauses(v["clauses"], c, mine, detail=label)
        out.sample({"case": c["id"], "tokens": len(t["tokens"]), "shex_shapes": len(t["shex"]), "shacl_shapes": len(t["shacl"]["shapes"]),
                    "shexc_head": (r["shexc"] or "")[:300], "clauses": v["clauses"]})


def c05_cases(rnd, n, prefix):
    cases = []
    colliding = [[[M.EX, ""]], [[M.EX, ""], [M.XSD, "weso-s"]], [[M.EX, ""], [M.XSD, "weso-s"], [M.RDF, "shapes"]],
                 [[M.EX, ""], [M.XSD, "weso-s"], [M.RDF, "shapes"], [gen.OTHER, "w-shapes"]], gen.NSDICT, []]
    for i in range(n):
        shapemap = rnd.random() < .2
        T = gen.general_graph(rnd, bnodes=not shapemap, max_nodes=6)
        cfg = gen.switches(rnd, ors=True)
        pipeline.target_variants(rnd, T, cfg, shapemap)
        cfg["nsDict"] = rnd.choice(colliding) if not shapemap else gen.NSDICT
        cfg["removeEmpty"] = rnd.random() < .7
        cfg["thr"] = rnd.choice([[0, 1], [1, 2], [2, 3], [1, 1], [1, 1]])
        cfg["report"] = rnd.choice(["mixed", "ratio", "abs"])
        cfg["comments"] = rnd.random() < .8
        if rnd.random() < .15:
            cfg["ignoreNs"] = [M.RDF]
        if rnd.random() < .2:
            cfg["minIri"] = True
        c = gen.case("%s%d" % (prefix, i), T, **cfg)
        c["want_shacl"] = cfg.get("disableOr", True)          # the SHACL serializer has no disjunctions (KF.C04.shacl_or)
        if rnd.random() < .2:
            c["repeat"] = rnd.randint(1, 2)
        if not shapemap and rnd.random() < .2 and not any(t[0] == "BNode" for s_, _p, o_ in T for t in (s_, o_)):
            # a Turtle document that declares prefixes of its own, among them labels the user (or the shapes namespace) already uses
            c["channel"] = "turtle"
            c["docPrefixes"] = rnd.choice([[["", M.EX]], [["", M.EX], ["ex", gen.OTHER]], [["ex", gen.EX2], ["xsd", gen.OTHER]],
                                           [["weso-s", M.EX], ["", gen.EX2]], [["rdf", M.EX]]])
        cases.append(c)
    return cases


def check_c05(out, tier):
    rnd = random.Random(common.seed() + 5)
    mine = lambda c: c.startswith("C05.")
    pipeline.l1(out, ["MC_C05_%s.cfg" % tier])
    k = pipeline.SIZES[tier]
    chains = []
    for i in range(30 * k):
        c = gen.chain_case(rnd, "c05j%d" % i)
        c["want_shacl"] = False      # shape-map labels: the SHACL serializer is exercised by the class-target cases
        chains.append(c)
    judge_docs(out, c05_cases(rnd, 280 * k, "c05g") + chains, ["C05"], mine)
    # closure at the level of the abstract schema (references after thresholds / removal of empty shapes), custom instantiation property
    cl = []
    for i in range(120 * k):
        ip = rnd.choice([M.RDF_TYPE, M.EX + "isA"])
        T = gen.general_graph(rnd, inst_prop=ip, rich_literals=False, bnodes=False)
        cfg = gen.switches(rnd)
        cfg.update(instProp=ip, thr=rnd.choice([[1, 2], [2, 3], [1, 1]]), removeEmpty=True)
        if rnd.random() < .5:
            pipeline.target_variants(rnd, T, cfg, rnd.random() < .5)
            cfg["instProp"] = ip
        cl.append(gen.case("c05c%d" % i, T, **cfg))
    cl += [gen.chain_case(rnd, "c05k%d" % i) for i in range(40 * k)]
    cl += [gen.fan_case(rnd, "c05f%d" % i) for i in range(40 * k)]
    cl += [gen.or_fan_case(rnd, "c05o%d" % i) for i in range(20 * k)]
    cl += [gen.asym_link_case(rnd, "c05a%d" % i) for i in range(20 * k)]
    pipeline.run_and_judge(out, cl, ["C05"], mine)
    pins = [p for p in common.load_pinned("C05") if "case" in p]
    if pins:
        pc = []
        for p in pins:
            c = dict(p["case"])
            c["id"] = "pin:" + p["file"]
            pc.append(c)
        pipeline.run_and_judge(out, pc, ["C05"], mine, label="pinned reproducer")
    return ("general graphs x target modes x user namespace dictionaries colliding with the default shape prefixes ('', weso-s, shapes, "
            "w-shapes) x remove_empty_shapes x thresholds that empty shapes x OR configurations x min-IRI: the token stream of every "
            "emitted ShExC document is run through the acceptor of spec/ShExCDoc.tla (syntax, functional prefix map, declared prefixes, "
            "unique labels, references resolve); SHACL text parsed by rdflib and its structure judged by SchemaEquiv!ShaclClauses; "
            "reference closure also judged on the abstract schema (Core!C05Closed)")


def c11_cases(rnd, n, prefix):
    cases = []
    for i in range(n):
        T = gen.general_graph(rnd, max_nodes=6)
        cfg = gen.switches(rnd)
        classes = gen.classes_of(T)
        if classes and rnd.random() < .3:
            cfg["mode"] = "classes"
            cfg["targets"] = rnd.sample(classes, rnd.randint(1, len(classes)))
        cfg["report"] = rnd.choice(["mixed", "ratio"])
        cfg["nsDict"] = rnd.choice([[], gen.NSDICT])
        cases.append(gen.case("%s%d" % (prefix, i), T, **cfg))
    return cases


def check_c11(out, tier):
    rnd = random.Random(common.seed() + 11)
    mine = lambda c: c.startswith("C11.")
    r = tlc.check_model("MC_SchemaEquiv", "MC_C11.cfg", workers=4, timeout=600)
    out.add_l1("MC_SchemaEquiv/MC_C11.cfg", r)
    for inv in r["violated"]:
        out.violation("L1.%s" % inv, {"model": "MC_SchemaEquiv"}, r["out"][-1500:])
    k = pipeline.SIZES[tier]
    judge_docs(out, c11_cases(rnd, 300 * k, "c11g"), ["C11"], mine)
    # shape-map shapes that the threshold empties, kept (remove_empty_shapes off) or removed: an empty shape is a shape too
    sm = [gen.fan_case(rnd, "c11f%d" % i) for i in range(30 * k)] + [gen.chain_case(rnd, "c11k%d" % i) for i in range(20 * k)]
    for c in sm:
        c["cfg"]["removeEmpty"] = rnd.random() < .5
        c["cfg"]["disableOr"], c["cfg"]["redundantOr"] = True, False
    judge_docs(out, sm, ["C11"], mine, label="shapes emptied by the threshold")
    pins = []
    for p in common.load_pinned("C11"):
        if "case" in p:
            c = dict(p["case"])
            c["id"] = "pin:" + p["file"]
            pins.append(c)
    if pins:
        judge_docs(out, pins, ["C11"], mine, label="pinned reproducer")
        out.notes["pinned_reproducers"] = [c["id"] for c in pins]
    out.exhaustive = False
    return ("both serialisations of one Shaper (disable_or_statements at its default) over general graphs x inference switches x inverse "
            "paths x thresholds x class targets: one node shape per ShExC shape (same IRI, sh:targetClass = the class), one property shape "
            "per triple constraint with the same direction / predicate / value restriction / min-max counts under the mapping of "
            "spec/SchemaEquiv.tla; the mapping table itself is enumerated completely by TLC against the serializer's table")


def replay(prop, d):
    out = common.Outcome(prop, "quick")
    case = d["case"]
    judge_docs(out, [case], [prop], lambda c: c.startswith(prop + "."), label="replay")
    if prop == "C05":
        pipeline.run_and_judge(out, [case], ["C05"], lambda c: c.startswith("C05."), label="replay")
    return common.finish(out, rule="replay")


REGISTRY = {"C05": check_c05, "C11": check_c11}
