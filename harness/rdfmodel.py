"""Abstract RDF terms shared by the generators, the renderers and the TLA+ side.

term   = (kind, id)   kind in {"IRI", "BNode"} or a datatype IRI; id = IRI / "_:label" / lexical form (+ "@lang")
triple = (s, p, o)    p is an IRI string
The same shapes cross the JSON boundary: a triple is [[sk, sid], p, [ok, oid]].
"""
RDF = "http://www.w3.org/1999/02/22-rdf-syntax-ns#"
RDF_TYPE = RDF + "type"
XSD = "http://www.w3.org/2001/XMLSchema#"
XSD_STRING = XSD + "string"
XSD_INTEGER = XSD + "integer"
LANG_STRING = RDF + "langString"
EX = "http://example.org/"
SHAPES_NS = "http://weso.es/shapes/"


def iri(x):
    return ("IRI", x)


def bnode(label):
    return ("BNode", label if label.startswith("_:") else "_:" + label)


def lit(lex, dt=XSD_STRING, lang=None):
    if lang:
        return (LANG_STRING, lex + "@" + lang)
    return (dt, lex)


def is_node(t):
    return t[0] in ("IRI", "BNode")


def nt_escape(s):
    return s.replace("\\", "\\\\").replace('"', '\\"').replace("\n", "\\n").replace("\r", "\\r")


def nt_term(t):
    k, v = t
    if k == "IRI":
        return "<%s>" % v
    if k == "BNode":
        return v
    if k == LANG_STRING:
        lex, lang = v.rsplit("@", 1)
        return '"%s"@%s' % (nt_escape(lex), lang)
    if k == XSD_STRING:
        return '"%s"' % nt_escape(v)
    return '"%s"^^<%s>' % (nt_escape(v), k)


def to_nt(triples):
    return "".join("%s <%s> %s .\n" % (nt_term(s), p, nt_term(o)) for s, p, o in triples)


def to_json_graph(triples):
    return [[[s[0], s[1]], p, [o[0], o[1]]] for s, p, o in triples]


def from_json_graph(j):
    return [((t[0][0], t[0][1]), t[1], (t[2][0], t[2][1])) for t in j]


def local_name(uri):
    """Independent re-statement of how a class IRI is shortened into a shape label: the piece after the last
    '#' or '/' (a trailing separator is not a separator)."""
    last = uri
    if "#" in last and not last.endswith("#"):
        last = last[last.rfind("#") + 1:]
    if "/" in last:
        if not last.endswith("/"):
            last = last[last.rfind("/") + 1:]
        else:
            last = last[last[:-1].rfind("/") + 1:]
    return last


def to_rdflib(triples):
    import rdflib
    g = rdflib.Graph()
    bn = {}

    def conv(t):
        k, v = t
        if k == "IRI":
            return rdflib.URIRef(v)
        if k == "BNode":
            return bn.setdefault(v, rdflib.BNode(v[2:]))
        if k == LANG_STRING:
            lex, lang = v.rsplit("@", 1)
            return rdflib.Literal(lex, lang=lang)
        if k == XSD_STRING:
            return rdflib.Literal(v)
        return rdflib.Literal(v, datatype=rdflib.URIRef(k))
    for s, p, o in triples:
        g.add((conv(s), rdflib.URIRef(p), conv(o)))
    return g
