"""The repository's own test-suite as a trace producer (leg L3): every Shaper the suite builds is recorded by
harness/suite_plugin.py and judged by spec/Trace_Shexer.tla like any other execution.  Runs outside the feature set the
monitor models (shape maps, endpoints, qualifiers ...) are counted as skipped with the reason, never judged."""
import os
import json
import shutil
import tempfile
import subprocess
from fractions import Fraction
from harness import runner, common, pipeline, rdfmodel as M

UNSUPPORTED = ("url_endpoint", "shape_map_raw", "shape_map_file", "instances_file_input", "shape_qualifiers_mode",
               "wikidata_annotation", "file_target_classes", "url_graph_input", "list_of_url_input")


def record_suite():
    work = tempfile.mkdtemp(prefix="shexer-verif-suite-")
    out = os.path.join(work, "traces.jsonl")
    try:
        env = dict(os.environ, VERIF_SUITE_TRACES=out, PYTHONPATH=common.ROOT, SHEXER_VERIF="1")
        subprocess.run(["/venv/bin/python", "-m", "pytest", "-q", "-p", "no:cacheprovider", "-p", "harness.suite_plugin", "--timeout=900"],
                       cwd=runner.REPO, env=env, stdout=subprocess.PIPE, stderr=subprocess.STDOUT, timeout=900)
        if not os.path.exists(out):
            raise common.Machinery("the suite run produced no trace file")
        with open(out) as fh:
            return [json.loads(l) for l in fh]
    finally:
        shutil.rmtree(work, ignore_errors=True)


def _resolve(name, nsdict):
    if name.startswith("<") and name.endswith(">"):
        return name[1:-1]
    for ns, pre in nsdict.items():
        if name.startswith(pre + ":") and not name.startswith("http"):
            return ns + name[len(pre) + 1:]
    return name


def to_case(i, rec):
    """-> (case, observed result) or (None, reason)"""
    ctor = rec["ctor"]
    for k in UNSUPPORTED:
        if ctor.get(k):
            return None, k
    if rec["truncated"]:
        return None, "document larger than the hook keeps"
    calls = [c for c in rec["calls"]]
    if not calls:
        return None, "no shex_graph call"
    call = calls[0]
    if call["args"].get("output_format", "ShEx") != "ShEx":
        return None, "SHACL output"
    if call["status"] == "ok" and call["text"] is None:
        return None, "output written to a file"
    # the first pass may stop early (instances_cap with target classes): the longer of the two reads is the document
    read = rec["read2"] if len(rec["read2"]) >= len(rec["read1"]) else rec["read1"]
    if not read:
        return None, "nothing read"
    graph, seen = [], set()
    for sk, s, p, ok, o in read:
        if sk not in ("IRI", "BNode") or ok in ("?", "None"):
            return None, "term kind outside the model"
        t = ((sk, s), p, (ok, o))
        if t not in seen:
            seen.add(t)
            graph.append([[sk, s], p, [ok, o]])
    nsd = ctor.get("namespaces_dict") if isinstance(ctor.get("namespaces_dict"), dict) else {}
    thr = Fraction(call["args"].get("acceptance_threshold", 0)).limit_denominator(1000)
    cfg = runner.default_cfg(
        instProp=_resolve(ctor.get("instantiation_property", M.RDF_TYPE), nsd), thr=[thr.numerator, thr.denominator],
        inverse=bool(ctor.get("inverse_paths", False)), allCompliant=ctor.get("all_instances_are_compliant_mode", True),
        keepLess=ctor.get("keep_less_specific", True), discardUseless=ctor.get("discard_useless_constraints_with_positive_closure", True),
        allowOpt=ctor.get("allow_opt_cardinality", True), disableExact=ctor.get("disable_exact_cardinality", False),
        disableOr=ctor.get("disable_or_statements", True), redundantOr=ctor.get("allow_redundant_or", False),
        removeEmpty=ctor.get("remove_empty_shapes", True), cap=max(0, ctor.get("instances_cap", -1) or 0),
        ignoreNs=list(ctor.get("namespaces_to_ignore") or []), report=ctor.get("instances_report_mode", "ratio"),
        decimals=ctor.get("decimals", -1), comments=not ctor.get("disable_comments", False),
        shapesNs=ctor.get("shapes_namespace", M.SHAPES_NS), nsDict=[[k, v] for k, v in nsd.items()])
    if ctor.get("all_classes_mode"):
        cfg["mode"] = "all"
    elif isinstance(ctor.get("target_classes"), list):
        cfg["mode"] = "classes"
        cfg["targets"] = [_resolve(c, nsd) for c in ctor["target_classes"]]
    else:
        return None, "target specification outside the model"
    if cfg["shapesNs"] != M.SHAPES_NS:
        return None, "custom shapes namespace (known finding KF.C13.shapesns)"
    if cfg["decimals"] == 0:
        return None, "decimals=0 (known finding KF.C13.truncation)"
    case = {"id": "suite%d" % i, "graph": graph, "cfg": cfg, "test": rec["test"]}
    res = {"id": case["id"], "status": "ok" if call["status"] == "ok" else "raise", "exc": call["exc"], "frame": "", "phase": "shex_graph"}
    if call["status"] == "ok":
        res["schema"] = runner.observe_schema(call["text"], case)
    if rec.get("tracked") is not None:
        res["tracked"] = runner.project_tracked(rec["tracked"])
    return (case, res), ""


def judge_suite(out, want, mine):
    recs = record_suite()
    cases, results = [], []
    for i, rec in enumerate(recs):
        cr, why = to_case(i, rec)
        if cr is None:
            out.skip("suite run outside the modelled feature set: " + why)
            continue
        cases.append(cr[0])
        results.append(cr[1])
    if len(cases) < 40:
        raise common.Machinery("only %d runs of the repository's suite could be turned into traces" % len(cases))
    verdicts, stats = pipeline.judge(cases, results, want)
    out.traces += len(cases)
    out.evaluations += len(cases)
    out.notes["suite_runs_recorded"] = len(recs)
    out.notes["suite_runs_judged"] = len(cases)
    for c, r in zip(cases, results):
        v = verdicts[c["id"]]
        if r["status"] != "ok":
            out.skip("suite run that raises (expected by its test)")
            continue
        out.judge_clauses(v["clauses"], c, mine, detail="repository test %s" % c.get("test", ""))
    return len(cases)
