"""Checks of the extraction pipeline (C01-C05, C10, C16 ...): L1 model checking of spec/Shexer.tla,
L3 validation of real executions by spec/Trace_Shexer.tla, pinned reproducers."""
import random
import re
from harness import gen, runner, tlc, common, rdfmodel as M

ALL_WANT = ["C01", "C02", "C03", "C05", "C10"]


def make_trace(case, res, want):
    sch = res.get("schema") or {"parse": "ok", "shapes": []}
    status = res["status"]
    return {"id": case["id"], "graph": case["graph"], "cfg": runner.tla_cfg(case["cfg"]),
            "status": status if status in ("ok", "raise", "hang") else "harness",
            "parse": "ok" if sch["parse"] == "ok" else "error",
            "shapes": [{"key": s["key"], "n": s["n"],
                        "tcs": [{"inv": t["inv"], "p": t["p"], "k": t["k"], "ks": t["ks"], "card": t["card"],
                                 "abs": t["abs"], "ratio": t["ratio"], "com": t["com"]} for t in s["tcs"]]}
                       for s in sch["shapes"]],
            "tracked": res.get("tracked", []), "hasTracked": "tracked" in res,
            "profile": res.get("profile", []), "hasProfile": "profile" in res, "order": res.get("order", []),
            "pres": {"comments": bool(case["cfg"].get("comments", True)), "report": case["cfg"].get("report", "mixed")},
            # two shape keys that get the same label (classes sharing a local name): the quantifiers draw distinct local names and list
            # this as a known finding; the generators never produce it, the pinned reproducer does
            "collide": len({l for _k, l in runner.expected_labels(case)}) != len(runner.expected_labels(case)), "want": want}


def judge(cases, results, want, procs=8):
    for r in results:
        if r["status"] == "harness-error":
            raise common.Machinery("harness error in case %s: %s\n%s" % (r.get("id"), r.get("exc"), r.get("trace", "")))
    # the operational model recurses over the document: conformance with it is judged on documents of up to 60 triples
    def w(c):
        return want if len(c["graph"]) <= 60 and c["cfg"].get("format", "shexc") == "shexc" else [x for x in want if x != "drift"]
    traces = [make_trace(c, r, w(c)) for c, r in zip(cases, results)]
    verdicts, stats = tlc.validate_batch("Trace_Shexer", "Trace_Shexer.cfg", traces, procs=procs, xss="64m")
    return verdicts, stats


def signature(case):
    """what makes a case 'distinct and non-trivial': >= 2 instances overall and >= 1 non-type triple"""
    g = case["graph"]
    ntype = sum(1 for t in g if t[1] == case["cfg"]["instProp"])
    if ntype < 2 or len(g) - ntype < 1:
        return None
    return common.hashlib.sha256(repr((g, sorted(case["cfg"].items(), key=str))).encode()).hexdigest()[:16]


def run_and_judge(out, cases, want, mine, crash_is_mine=False, label=""):
    """runs the cases through the real code, lets TLC judge them, books the result in `out`"""
    results = runner.run_cases(cases)
    verdicts, stats = judge(cases, results, want + ([] if "drift" in want else ["drift"]))
    for c in cases:      # conformance with the operational model, stage by stage: reported in the evidence, never a verdict
        for cl in verdicts[c["id"]]["clauses"]:
            if cl.startswith("drift."):
                key = "model_" + cl.replace(".", "_")
                out.notes[key] = out.notes.get(key, 0) + 1
                if len(out.notes.setdefault("model_drift_cases", [])) < 5:
                    out.notes["model_drift_cases"].append({"clause": cl, "case": c})
    out.notes["model_conformance_judged"] = out.notes.get("model_conformance_judged", 0) + sum(1 for c in cases if len(c["graph"]) <= 60 and c["cfg"].get("format", "shexc") == "shexc")
    out.traces += len(cases)
    out.evaluations += len(cases)
    out.notes["monitor_states"] = out.notes.get("monitor_states", 0) + stats["states"]
    strict = 0
    for c, r in zip(cases, results):
        v = verdicts[c["id"]]
        sig = signature(c)
        if sig:
            out.nontrivial.add(sig)
        if v["info"].get("strict"):
            strict += 1
        if r["status"] != "ok":
            if crash_is_mine:
                kf = known_crash(c, r)
                if kf:
                    out.known(kf)
                else:
                    out.violation("C04.%s:%s@%s" % (r["status"], r["exc"], r["frame"]), c, "phase=%s" % r["phase"])
            elif known_crash(c, r):
                out.skip("crashed at a call site recorded as a known finding of C04")
            else:
                # no output at all for an input of this property's domain: the property cannot hold on it (and leaving the crash
                # to C04 alone would let through whatever made this particular family of inputs crash)
                out.violation("%s.%s:%s@%s" % (out.prop, r["status"], r["exc"], r["frame"]), c, "phase=%s %s" % (r["phase"], label))
            continue
        if "C05.unparseable" in v["clauses"] and not mine("C05.unparseable"):
            # the text is not even a ShExC schema: nothing this property says can be read off it, and that is a verdict here too
            # (a silent skip would hide whatever made it unreadable)
            out.violation("%s.unparseable" % out.prop, c, label)
        out.judge_clauses(v["clauses"], c, mine, detail=label)
        out.sample({"case": c["id"], "triples": len(c["graph"]), "graph_head": c["graph"][:4],
                    "cfg": {k: c["cfg"][k] for k in ("mode", "thr", "inverse", "allCompliant", "keepLess", "cap")},
                    "shapes": len((r.get("schema") or {}).get("shapes", [])), "clauses": v["clauses"]})
    out.notes["strict_domain_cases"] = out.notes.get("strict_domain_cases", 0) + strict
    return results, verdicts


def known_crash(case, res):
    """call-site identification of the crashes recorded as known findings: exception type + innermost sheXer
    frame + the configuration condition under which that call site is reached"""
    for f in common.load_known():
        m = f.get("match")
        if m and m.get("exc") == res["exc"] and m.get("frame") == res["frame"] and \
                all(case["cfg"].get(k) == v for k, v in m.get("cfg", {}).items()):
            return f["key"]
    return None


def l1(out, cfgs, timeout=1500, workers=8):
    """cfgs: configuration file names of MC_Shexer, or (module, cfg) pairs"""
    for item in cfgs:
        module, cfg = ("MC_Shexer", item) if isinstance(item, str) else item
        r = tlc.check_model(module, cfg, workers=workers, timeout=timeout)
        out.add_l1("%s/%s" % (module, cfg), r)
        for inv in r["violated"]:
            out.violation("L1.%s" % inv, {"model": cfg}, "design-level counterexample in spec/%s (%s):\n%s" % (module, cfg, r["out"][-1800:]))


# ---------------------------------------------------------------------------------------------------
def target_variants(rnd, T, cfg, shapemap=False):
    """decorates a configuration with a target-selection mode"""
    classes = gen.classes_of(T, cfg.get("instProp", M.RDF_TYPE))
    r = rnd.random()
    if shapemap:
        cfg["mode"] = "shapemap"
        cfg["items"] = shape_map_items(rnd, T, classes)
        cfg["nsDict"] = gen.NSDICT
        cfg["smSyntax"] = rnd.choice(["fsm", "json"])
    elif r < .6 or not classes:
        cfg["mode"] = "all"
    else:
        k = rnd.randint(1, len(classes))
        cfg["mode"] = "classes"
        cfg["targets"] = rnd.sample(classes, k) + ([M.EX + "Absent"] if rnd.random() < .2 else [])
        cfg["spelling"] = rnd.choice(["full", "bracket", "prefixed"])
        cfg["nsDict"] = gen.NSDICT
    return cfg


def shape_map_items(rnd, T, classes, wildcards=False):
    items = []
    nodes = sorted({s for s, p, o in T if s[0] == "IRI"})
    props = sorted({p for s, p, o in T if p != M.RDF_TYPE})
    # several entries may carry the same label (adjacent or not: S, T, S) and their selectors may overlap: a label denotes the
    # union of what its entries select, every node once
    nlabels = rnd.randint(1, 3)
    spell = [rnd.choice(["bracket", "bracket", "prefixed"]) for _ in range(nlabels)]
    for i in range(rnd.randint(1, 4)):
        li = i if i < nlabels and rnd.random() < .7 else rnd.randrange(nlabels)
        # (a label spelled as a prefixed name lives in a namespace of the dictionary the case passes)
        label = (gen.EX2 if spell[li] == "prefixed" else M.EX + "shapes/") + "L%d" % li
        it = {"label": label, "labelSpelling": spell[li],
              "spelling": rnd.choice(["bracket", "prefixed", "a"])}
        r = rnd.random()
        if r < .3 and nodes:
            n = rnd.choice(nodes)
            it.update(kind="node", node=[n[0], n[1]])
        elif r < .7 and classes:
            it.update(kind="pattern", ps=["FOCUS", ""], pp=M.RDF_TYPE, po=["IRI", rnd.choice(classes)],
                      syntax=rnd.choice(["focus", "sparql"]),
                      sparqlLayout=rnd.choice(["plain", "plain", "upper", "nowhere", "brace", "tab", "newline", "distinct", "filter", "filter", "invpath"]))
        elif props:
            p = rnd.choice(props)
            objs = sorted({o for s, pp, o in T if pp == p and o[0] == "IRI"})
            subs = sorted({s for s, pp, o in T if pp == p and s[0] == "IRI"})
            if objs and rnd.random() < .5:
                it.update(kind="pattern", ps=["FOCUS", ""], pp=p, po=["IRI", rnd.choice(objs)[1]], syntax=rnd.choice(["focus", "focus", "sparql"]),
                          sparqlLayout=rnd.choice(["plain", "invpath", "filter", "brace"]))
            elif subs and rnd.random() < .6:
                it.update(kind="pattern", ps=["IRI", rnd.choice(subs)[1]], pp=p, po=["FOCUS", ""], syntax="focus")
            elif wildcards:
                if rnd.random() < .5:
                    it.update(kind="pattern", ps=["FOCUS", ""], pp=p, po=["ANY", ""], syntax="focus")
                else:
                    it.update(kind="pattern", ps=["ANY", ""], pp=p, po=["FOCUS", ""], syntax="focus")
            else:
                continue
        else:
            continue
        items.append(it)
    if not items and nodes:
        items.append({"label": M.EX + "shapes/L0", "labelSpelling": "bracket", "spelling": "bracket", "kind": "node",
                      "node": list(nodes[0])})
    return items


def general_cases(rnd, n, prefix, targets=True, reports=True, ors=False, rich=True, max_nodes=7, inverse=None, **fixed):
    cases = []
    for i in range(n):
        # selectors are evaluated on a graph rdflib parsed separately: blank nodes get other labels there
        # (known finding KF.C10.bnodeselector), so shape-map cases are drawn over IRI nodes
        shapemap = targets and rnd.random() < .2
        r = rnd.random()
        if not shapemap and r < .2:
            T = gen.dense_graph(rnd)
        elif r > .9:
            T = gen.multi_graph(rnd)
        else:
            T = gen.general_graph(rnd, max_nodes=max_nodes, rich_literals=rich, bnodes=not shapemap)
        cfg = gen.switches(rnd, inverse=inverse, ors=ors)
        if targets:
            target_variants(rnd, T, cfg, shapemap)
        if reports:
            cfg["report"] = rnd.choice(["mixed", "mixed", "abs", "ratio"])
            cfg["decimals"] = rnd.choice([-1, -1, 2, 3])
        cfg.update(fixed)
        if not any(it for it in cfg.get("items", [])) and cfg.get("mode") == "shapemap":
            cfg["mode"] = "all"
        cases.append(via_channel(rnd, gen.case("%s%d" % (prefix, i), T, **cfg), T))
    return cases


def via_channel(rnd, case, T, p=.15):
    """now and then the graph reaches the library through rdflib (a Turtle or RDF/XML text, a Graph object) instead of an N-Triples
    string: what a property says about a graph does not depend on how the graph was written down (IRI-node graphs: rdflib renames
    blank nodes)"""
    if rnd.random() < p and not any(t[0] == "BNode" for s, _p, o in T for t in (s, o)):
        from harness import channels
        case["channel"] = rnd.choice(["turtle", "rdflib", "xml" if channels.xml_expressible(T) else "turtle"])
    return case


def strict_cases(rnd, n, prefix):
    cases = []
    for i in range(n):
        inv = rnd.random() < .4
        T = gen.schema_graph(rnd, inverse_safe=inv)
        if rnd.random() < .05:
            # a document may state a triple more than once (overlapping dumps): the graph it denotes is the same, but sheXer
            # counts statements, not triples - a recorded finding (KF.C03.duplicates) that these few cases keep visible
            types = [t for t in T if t[1] == M.RDF_TYPE]
            for t in rnd.sample(types, min(len(types), rnd.randint(1, 2))):
                T.insert(rnd.randint(0, len(T)), t)
        cfg = dict(allCompliant=True, keepLess=True, thr=[0, 1], discardUseless=rnd.random() < .5,
                   allowOpt=rnd.random() < .6, disableExact=rnd.random() < .4, inverse=inv)
        main = sorted({o[1] for s_, p_, o in T if p_ == M.RDF_TYPE and o[1].startswith(M.EX + "C")})
        if main and rnd.random() < .35:       # target classes: the schema's own classes, not the second types some instances carry
            cfg.update(mode="classes", targets=main)
        cases.append(via_channel(rnd, gen.case("%s%d" % (prefix, i), T, **cfg), T, p=.25))
    return cases


def pinned_cases(out, prop, want, mine, crash_is_mine=False):
    pins = common.load_pinned(prop)
    if not pins:
        return
    cases = []
    for p in pins:
        if "case" not in p:
            continue
        c = dict(p["case"])
        c["id"] = "pin:" + p["file"]
        cases.append(c)
    run_and_judge(out, cases, want, mine, crash_is_mine=crash_is_mine, label="pinned reproducer")
    out.notes["pinned_reproducers"] = [p["file"] for p in pins]


# ---------------------------------------------------------------------------------------------------
SIZES = {"quick": 1, "thorough": 12}
L2_BEHAVIOURS = {"quick": 120, "thorough": 2400}      # leg L2: TLC-generated behaviours (spec/MC_Sim.tla) replayed into the code


def check_c01(out, tier):
    rnd = random.Random(common.seed())
    mine = lambda c: c.startswith("C01.")
    l1(out, ["MC_C01_quick.cfg"] if tier == "quick" else ["MC_C01_quick.cfg", "MC_C01_thorough.cfg"])
    k = SIZES[tier]
    run_and_judge(out, general_cases(rnd, 260 * k, "c01g"), ["C01"], mine)
    run_and_judge(out, general_cases(rnd, 60 * k, "c01or", ors=True, targets=False), ["C01"], mine)
    inc = []
    for i in range(40 * k):
        cfg = gen.switches(rnd, inverse=True)
        cfg["report"] = "mixed"
        if rnd.random() < .4:
            cfg.update(mode="classes", targets=[M.EX + "A"])
        inc.append(gen.case("c01i%d" % i, gen.incoming_graph(rnd), **cfg))
    run_and_judge(out, inc, ["C01"], mine, label="incoming links from typed / untyped, IRI / blank-node subjects")
    run_and_judge(out, [gen.hub_case(rnd, "c01h%d" % i) for i in range(3 * k)], ["C01"], mine, label="one instance with > 1000 values / incoming arcs")
    run_and_judge(out, [gen.partly_typed_case(rnd, "c01t%d" % i) for i in range(40 * k)], ["C01"], mine, label="IRI values partly instances of a shape")
    # the kind a figure is attached to: every (lexical class, declared kind) of spec/LiteralTyping.tla through the rdflib readers
    from harness import typing_leg
    typing_leg.leg(out, "C01", ["turtle", "rdflib"])
    pinned_cases(out, "C01", ["C01"], mine)
    from harness import suite_traces, simulate
    simulate.replay(out, L2_BEHAVIOURS[tier], ["C01"], mine)
    suite_traces.judge_suite(out, ["C01"], mine)
    return ("graphs: seeded random general graphs (2-7 subjects, blank nodes, 1-3 classes, multi-typed nodes, mixed "
            "object kinds, 0-3 values) x inference switches x thresholds x target modes (all / classes / shape map) x "
            "report modes x decimals; non-trivial = >= 2 instantiation triples and >= 1 other triple, distinct by "
            "hash of (graph, configuration)")


def gen_small_boundary(rnd):
    """one class of 2-6 instances, two features held by k of them: threshold exactly k/n"""
    n = rnd.randint(2, 6)
    nodes = [M.iri(M.EX + "w%d" % i) for i in range(n)]
    T = [(x, M.RDF_TYPE, M.iri(M.EX + "W")) for x in nodes]
    ks = [rnd.randint(1, n), rnd.randint(1, n)]
    for j, kk in enumerate(ks):
        for x in rnd.sample(nodes, kk):
            T.append((x, M.EX + "f%d" % j, M.lit("v")))
    rnd.shuffle(T)
    return T, [[kk, n] for kk in ks]


def check_c02(out, tier):
    rnd = random.Random(common.seed() + 2)
    mine = lambda c: c.startswith("C02.")
    l1(out, ["MC_C02_quick.cfg"] if tier == "quick" else ["MC_C02_quick.cfg", "MC_C02_thorough.cfg"])
    k = SIZES[tier]
    run_and_judge(out, general_cases(rnd, 240 * k, "c02g", reports=False), ["C02"], mine)
    run_and_judge(out, general_cases(rnd, 80 * k, "c02e", reports=False, removeEmpty=False), ["C02"], mine)
    wide = []
    for i in range(24 * k):
        T, thrs = gen.boundary_graph(rnd)
        for j, thr in enumerate(thrs[:2]):
            wide.append(gen.case("c02w%d_%d" % (i, j), T, thr=thr, inverse=rnd.random() < .4, keepLess=rnd.random() < .7))
    run_and_judge(out, wide, ["C02"], mine, label="wide class, threshold exactly k/n")
    # the same Shaper asked first for a threshold a hair above (or below) k/n, then for k/n itself: the second answer is the one for k/n
    import math
    near = []
    for i in range(16 * k):
        T, thrs = gen.boundary_graph(rnd) if i % 2 else gen_small_boundary(rnd)
        c = gen.case("c02n%d" % i, T, thr=thrs[0], inverse=rnd.random() < .3, keepLess=rnd.random() < .7)
        f = thrs[0][0] / thrs[0][1]
        c["before"] = [rnd.choice([math.nextafter(f, 2.0), f * (1 + 4e-10), f + 1e-12, math.nextafter(f, -1.0)])]
        near.append(c)
    run_and_judge(out, near, ["C02"], mine, label="threshold k/n after a call with a threshold a hair away")
    run_and_judge(out, [gen.chain_case(rnd, "c02k%d" % i) for i in range(30 * k)], ["C02"], mine, label="removal cascades")
    run_and_judge(out, [gen.fan_case(rnd, "c02f%d" % i) for i in range(30 * k)], ["C02"], mine, label="several shapes emptied in one round")
    run_and_judge(out, [gen.hub_case(rnd, "c02h%d" % i) for i in range(4 * k)], ["C02"], mine, label="one instance with > 1000 values / incoming arcs")
    inc = []
    for i in range(30 * k):
        cfg = gen.switches(rnd, inverse=True)
        cfg["thr"] = rnd.choice([[1, 3], [1, 2], [51, 100], [2, 3], [1, 1]])
        if rnd.random() < .4:
            cfg.update(mode="classes", targets=[M.EX + "A"])
        inc.append(gen.case("c02i%d" % i, gen.incoming_graph(rnd), **cfg))
    run_and_judge(out, inc, ["C02"], mine, label="incoming links to IRI / blank-node instances from typed / untyped subjects")
    pinned_cases(out, "C02", ["C02"], mine)
    from harness import simulate
    simulate.replay(out, L2_BEHAVIOURS[tier], ["C02"], mine)
    if tier == "thorough":
        from harness import suite_traces
        suite_traces.judge_suite(out, ["C02", "C05", "C10"], lambda c: c.startswith(("C02.", "C05.", "C10.")))
    return ("as C01, thresholds on the k/n boundaries {0, 1/3, 1/2, 51/100, 2/3, 1}; remove_empty_shapes on and off; "
            "target classes without instances")


def check_c03(out, tier):
    rnd = random.Random(common.seed() + 3)
    mine = lambda c: c.startswith("C03.")
    l1(out, ["MC_C03_quick.cfg"] if tier == "quick" else ["MC_C03_quick.cfg", "MC_C03_thorough.cfg"])
    k = SIZES[tier]
    run_and_judge(out, strict_cases(rnd, 220 * k, "c03s"), ["C03"], mine)
    run_and_judge(out, general_cases(rnd, 80 * k, "c03g", targets=False, reports=False), ["C03"], mine)
    # a value matches the constraint of its own kind only if the reader typed it as the graph does (spec/LiteralTyping.tla)
    from harness import typing_leg
    typing_leg.leg(out, "C03", ["turtle", "xml", "nt"])
    pinned_cases(out, "C03", ["C03"], mine)
    from harness import simulate
    simulate.replay(out, L2_BEHAVIOURS[tier], ["C03"], mine)
    if tier == "thorough":
        from harness import suite_traces
        suite_traces.judge_suite(out, ["C03"], mine)
    if out.notes.get("strict_domain_cases", 0) < 50:
        raise common.Machinery("C03: only %d executions fell in the strict domain: the antecedent was not exercised"
                               % out.notes.get("strict_domain_cases", 0))
    return ("schema-first graphs (per (class, property) a range: literal mix | untyped IRI | untyped blank | one "
            "single-typed class) with arbitrary presence and cardinality x the switches of the strict domain; membership "
            "in the strict domain is decided by the specification (SchemaConsistent) on the logged graph; plus general "
            "graphs for the local '?' clause")


def check_c04(out, tier):
    rnd = random.Random(common.seed() + 4)
    mine = lambda c: c.startswith("C04.")
    l1(out, ["MC_C04_quick.cfg"] if tier == "quick" else ["MC_C04_quick.cfg", "MC_C04_thorough.cfg"])
    k = SIZES[tier]
    run_and_judge(out, general_cases(rnd, 220 * k, "c04g", ors=True), [], mine, crash_is_mine=True)
    run_and_judge(out, adversarial_cases(rnd, 120 * k, "c04a"), [], mine, crash_is_mine=True)
    run_and_judge(out, featureless_cases(rnd, 60 * k, "c04f"), [], mine, crash_is_mine=True)
    run_and_judge(out, tied_reference_cases(rnd, 40 * k, "c04t"), [], mine, crash_is_mine=True)
    opts = general_cases(rnd, 140 * k, "c04o", ors=True)
    for c in opts:
        c["cfg"].update(minIri=rnd.random() < .5, examples=rnd.choice(["", "shape", "cons", "all"]),
                        ignoreNs=rnd.choice([[], [], [M.RDF], [M.EX], [gen.EX2]]), cap=rnd.choice([0, 0, 1, 2]),
                        format=rnd.choice(["shexc", "shexc", "shacl"]), comments=rnd.random() < .8)
        if c["cfg"]["format"] == "shacl":
            c["cfg"]["examples"] = c["cfg"]["examples"] if rnd.random() < .5 else ""
    run_and_judge(out, opts, [], mine, crash_is_mine=True)
    # every predicate of the instances in an ignored namespace (the instantiation property too): instances without a profile -
    # and a second call on the same Shaper
    allign = []
    for i in range(24 * k):
        T = gen.general_graph(rnd, max_nodes=5, rich_literals=False, bnodes=rnd.random() < .3, hierarchy=False)
        nss = sorted({re.match(r"^(.*[/#])", p_).group(1) for _s, p_, _o in T})
        if rnd.random() < .4 and len(nss) > 1:
            nss = nss[:-1]
        cfg = gen.switches(rnd, ors=True)
        cfg.update(ignoreNs=nss, removeEmpty=rnd.random() < .8, format=rnd.choice(["shexc", "shexc", "shacl"]))
        if rnd.random() < .4:
            cl = gen.classes_of(T)
            if cl:
                cfg.update(mode="classes", targets=cl[:1])
        c = gen.case("c04i%d" % i, T, **cfg)
        c["before"] = [rnd.choice(gen.THRESHOLDS) for _ in range(rnd.randint(1, 2))]
        allign.append(c)
    run_and_judge(out, allign, [], mine, crash_is_mine=True, label="all predicates ignored, repeated calls")
    # valid documents without a single triple (empty, comments only, prefix declarations only), through every reader
    notrip = []
    for i, (ch, text) in enumerate([("nt", ""), ("nt", "# nothing here\n\n"), ("turtle", "@prefix ex: <http://example.org/> .\n# no statements\n"),
                                    ("turtle_iter", "@prefix ex: <http://example.org/> .\n# no statements\n"), ("tsv_spo", "\n"), ("xml", None), ("rdflib", None)]):
        for mode in ("all", "classes"):
            c = gen.case("c04z%d%s" % (i, mode[0]), [], mode=mode, targets=[M.EX + "C0"] if mode == "classes" else [],
                         format=rnd.choice(["shexc", "shacl"]), removeEmpty=rnd.random() < .5)
            c["channel"] = ch
            if text is not None:
                c["rawText"] = text
            notrip.append(c)
    run_and_judge(out, notrip, [], mine, crash_is_mine=True, label="documents without triples")
    # every (lexical class, declared kind), quoted and as Turtle / TSV shorthand, through the hand-written readers: none may raise
    from harness import typing_leg
    typing_leg.leg(out, "C04", ["turtle_iter", "tsv_spo", "nt"])
    pinned_cases(out, "C04", [], mine, crash_is_mine=True)
    from harness import simulate
    simulate.replay(out, L2_BEHAVIOURS[tier], [], mine, crash_is_mine=True)
    extra_c04_calls(out, rnd, 40 * k)
    return ("general graphs x all target modes x OR configurations; adversarial mixes (IRI + blank values with / "
            "without classes, thresholds that keep a shape reference but drop the plain kinds, nodes without outgoing "
            "triples, one-instance classes, language tags); both output formats and profile_graph")


def adversarial_cases(rnd, n, prefix):
    cases = []
    for i in range(n):
        nn = rnd.randint(2, 5)
        nodes = [M.iri(M.EX + "n%d" % j) for j in range(nn)]
        bn = [M.bnode("b%d" % j) for j in range(2)]
        classes = [M.EX + "C%d" % j for j in range(rnd.randint(1, 3))]
        T = set()
        typed = set()
        for x in nodes + bn:
            for c in classes:
                if rnd.random() < .5:
                    T.add((x, M.RDF_TYPE, M.iri(c)))
                    typed.add(x)
        p = M.EX + "p"
        for x in nodes:
            pool = nodes + bn + [M.iri(M.EX + "u0"), M.bnode("u1")]
            for o in rnd.sample(pool, rnd.randint(0, min(4, len(pool)))):
                T.add((x, p, o))
            if rnd.random() < .3:
                T.add((x, M.EX + "q", M.lit("w", lang="en")))
        T = sorted(T, key=str)
        rnd.shuffle(T)
        cfg = gen.switches(rnd, ors=True)
        cfg["thr"] = rnd.choice([[0, 1], [1, 2], [51, 100], [2, 3], [1, 1]])
        cfg["removeEmpty"] = rnd.random() < .7
        if rnd.random() < .3 and classes:
            cfg["mode"] = "classes"
            cfg["targets"] = classes[:1] + [M.EX + "Absent"]
        cfg["format"] = rnd.choice(["shexc", "shacl"])
        cases.append(gen.case("%s%d" % (prefix, i), T, **cfg))
    return cases


def tied_reference_cases(rnd, n, prefix):
    """a property whose values are IRIs for some instances and blank nodes for others - so that a threshold above one half drops
    both plain node kinds - while every value belongs to the same two (or three) shapes: the shape references survive and are
    exactly tied"""
    cases = []
    for i in range(n):
        ns = rnd.choice([2, 4, 4, 6])
        S = [M.iri(M.EX + "s%d" % j) for j in range(ns)]
        objs = [M.iri(M.EX + "o%d" % j) if j < ns // 2 else M.bnode("o%d" % j) for j in range(ns)]
        classes = [M.EX + "O%d" % j for j in range(rnd.randint(2, 3))]
        T = [(x, M.RDF_TYPE, M.iri(M.EX + "S")) for x in S]
        for o in objs:
            for c in classes:
                T.append((o, M.RDF_TYPE, M.iri(c)))
        for x, o in zip(S, objs):
            T.append((x, M.EX + "p", o))
        if rnd.random() < .5:
            T.append((S[0], M.EX + "p", M.lit("also a literal")))
        rnd.shuffle(T)
        cfg = gen.switches(rnd, ors=rnd.random() < .3)
        cfg.update(thr=rnd.choice([[51, 100], [3, 5], [2, 3], [1, 2], [0, 1]]), format=rnd.choice(["shexc", "shexc", "shacl"]))
        if cfg["format"] == "shacl":
            cfg["disableOr"], cfg["redundantOr"] = True, False
        cases.append(gen.case("%s%d" % (prefix, i), T, **cfg))
    return cases


def featureless_cases(rnd, n, prefix):
    """classes that have instances but no feature: every triple of their instances lies in an ignored namespace (the typing
    triple included), next to ordinary classes; crossed with the options that keep per-shape side tables (min IRI, examples)"""
    cases = []
    for i in range(n):
        T = list(gen.general_graph(rnd, max_nodes=5, bnodes=rnd.random() < .4))
        ghost = M.EX + "Ghost"
        for j in range(rnd.randint(1, 3)):
            g = M.iri(M.EX + "g%d" % j) if rnd.random() < .7 else M.bnode("g%d" % j)
            T.append((g, M.RDF_TYPE, M.iri(ghost)))
            if rnd.random() < .4:
                T.append((g, M.RDF + "value", M.lit("v%d" % j)))
            if rnd.random() < .4 and T:
                T.append((rnd.choice(T)[0], M.EX + "p0", g))       # referenced from elsewhere
        rnd.shuffle(T)
        cfg = gen.switches(rnd, ors=rnd.random() < .3)
        cfg.update(ignoreNs=[M.RDF], removeEmpty=rnd.random() < .8, minIri=rnd.random() < .6,
                   examples=rnd.choice(["", "", "shape", "cons", "all"]), format=rnd.choice(["shexc", "shexc", "shacl"]),
                   thr=rnd.choice([[0, 1], [1, 2], [1, 1]]))
        if cfg["format"] == "shacl":
            cfg["examples"] = ""
        if rnd.random() < .3:
            cfg["mode"] = "classes"
            cfg["targets"] = [ghost] + gen.classes_of(T)[:1]
        cases.append(gen.case("%s%d" % (prefix, i), T, **cfg))
    return cases


def _profile_call(case):
    from shexer.shaper import Shaper
    st, shaper, exc, frame = runner.call_guarded(lambda: Shaper(**runner.shaper_kwargs(case)))
    if st != "ok":
        return {"id": case["id"], "status": st, "exc": exc, "frame": frame, "phase": "ctor"}
    st, txt, exc, frame = runner.call_guarded(lambda: shaper.profile_graph(string_output=True))
    if st == "ok" and not isinstance(txt, str):
        return {"id": case["id"], "status": "raise", "exc": "NoStringReturned", "frame": "", "phase": "profile_graph"}
    return {"id": case["id"], "status": st, "exc": exc, "frame": frame, "phase": "profile_graph"}


def extra_c04_calls(out, rnd, n):
    cases = general_cases(rnd, n, "c04p", reports=False)
    results = runner.run_many(_profile_call, cases)
    for c, r in zip(cases, results):
        out.evaluations += 1
        if r["status"] == "harness-error":
            raise common.Machinery(r["exc"])
        if r["status"] != "ok":
            out.violation("C04.%s:%s@%s" % (r["status"], r["exc"], r["frame"]), c, "phase=%s" % r["phase"])


def extension_instances_file(out, rnd, n):
    """behaviour beyond the listed properties (spec growth): instances_file_input - pass 1 reads class membership from a document
    of its own (Core!IDoc). Judged like every execution, but what the monitor finds here is only *reported* (evidence key
    extension_instances_file): no listed property speaks about this input."""
    cases = []
    for i in range(n):
        T = gen.general_graph(rnd, rich_literals=False, bnodes=rnd.random() < .3, max_nodes=6)
        types = [t for t in T if t[1] == M.RDF_TYPE]
        if not types:
            continue
        inst = rnd.sample(types, rnd.randint(1, len(types)))
        subs = sorted({s for s, _p, _o in T})
        if rnd.random() < .4:           # a membership the graph itself does not state
            inst.append((rnd.choice(subs), M.RDF_TYPE, M.iri(M.EX + "Extra")))
        if rnd.random() < .3:           # the instances file may carry other triples: only typing triples matter
            inst.append((rnd.choice(subs), M.EX + "p0", M.lit("noise")))
        rnd.shuffle(inst)
        cfg = gen.switches(rnd)
        classes = sorted({o[1] for _s, _p, o in inst if _p == M.RDF_TYPE})
        if rnd.random() < .4:
            cfg["mode"] = "classes"
            cfg["targets"] = rnd.sample(classes, rnd.randint(1, len(classes)))
        if rnd.random() < .3:
            cfg["cap"] = rnd.randint(1, 2)
        c = gen.case("c10i%d" % i, T, **cfg)
        c["cfg"]["instDoc"] = M.to_json_graph(inst)
        c["instGraphAs"] = rnd.choice(["file", "raw", "files", "rdflib"])
        cases.append(c)
    results = runner.run_cases(cases)
    verdicts, _stats = judge(cases, results, ["C01", "C02", "C10", "drift"])
    found = {}
    for c, r in zip(cases, results):
        cl = ["crash:%s@%s" % (r["exc"], r["frame"])] if r["status"] != "ok" else verdicts[c["id"]]["clauses"]
        for x in cl:
            found[x] = found.get(x, 0) + 1
            if not x.startswith("KF.") and len(out.notes.setdefault("extension_instances_file_cases", [])) < 3:
                out.notes["extension_instances_file_cases"].append({"clause": x, "case": c})
    out.notes["extension_instances_file"] = {"executions": len(cases), "clauses_reported_not_judged": found}


def check_c10(out, tier):
    rnd = random.Random(common.seed() + 10)
    mine = lambda c: c.startswith("C10.") or c == "C01.header"
    l1(out, ["MC_C10_quick.cfg"] if tier == "quick" else ["MC_C10_quick.cfg", "MC_C10_thorough.cfg"])
    # shape maps (repeated labels, overlapping selectors), all classes + shape map, classes that are typed nodes (spec/MC_ShexerSM.tla)
    l1(out, [("MC_ShexerSM", "MC_SM_hier.cfg"), ("MC_ShexerSM", "MC_SM_shapemap_quick.cfg" if tier == "quick" else "MC_SM_shapemap.cfg")])
    k = SIZES[tier]
    cases = []
    for i in range(300 * k):
        ip = rnd.choice([M.RDF_TYPE, M.RDF_TYPE, M.EX + "isA", "http://www.wikidata.org/prop/direct/P31"])
        r = rnd.random()
        T = gen.general_graph(rnd, inst_prop=ip, rich_literals=False, bnodes=(r < .55), odd_names=True)
        if ip != M.RDF_TYPE and rnd.random() < .6:     # rdf:type must then be an ordinary property
            subs = sorted({s for s, p, o in T})
            for s in rnd.sample(subs, min(2, len(subs))):
                T.append((s, M.RDF_TYPE, M.iri(M.EX + "K%d" % rnd.randint(0, 1))))
        cfg = gen.switches(rnd)
        cfg["instProp"] = ip
        classes = gen.classes_of(T, ip)
        cfg["nsDict"] = gen.NSDICT + [["http://www.wikidata.org/prop/direct/", "wdt"]]
        if rnd.random() < .3:       # the user may bind the empty prefix: ':C0', ':isA' are prefixed names like any other
            cfg["nsDict"] = [[M.EX, ""]] + cfg["nsDict"][1:]
        cfg["instPropSpelling"] = rnd.choice(["full", "full", "prefixed"])
        if r < .25 or not classes:
            cfg["mode"] = "all"
        elif r < .55:
            cfg["mode"] = "classes"
            cfg["targets"] = rnd.sample(classes, rnd.randint(1, len(classes)))
            cfg["spelling"] = rnd.choice(["full", "bracket", "prefixed"])
        elif r < .85 or ip != M.RDF_TYPE:
            cfg["mode"] = "shapemap"
            # (with a custom instantiation property rdf:type is an ordinary property: 'a' in a pattern still means rdf:type)
            cfg["items"] = shape_map_items(rnd, T, classes if ip == M.RDF_TYPE else gen.classes_of(T, M.RDF_TYPE), wildcards=True)
            cfg["smSyntax"] = rnd.choice(["fsm", "json"])
        else:
            cfg["mode"] = "mixed"
            cfg["items"] = shape_map_items(rnd, T, classes, wildcards=True)
        if cfg["mode"] == "classes" and rnd.random() < .35:
            # a literal that spells the IRI of a target class is not that class: its subject is not an instance
            rec = M.iri(M.EX + "rec%d" % i)
            T = T + [(rec, ip, rnd.choice([M.lit(cfg["targets"][0]), M.lit(cfg["targets"][0], M.XSD + "anyURI")])), (rec, M.EX + "p0", M.lit("r"))]
            rnd.shuffle(T)
        cases.append(gen.case("c10g%d" % i, T, **cfg))
    run_and_judge(out, cases, ["C10", "C01"], mine)
    pinned_cases(out, "C10", ["C10", "C01"], mine)
    extension_instances_file(out, rnd, 40 * k)
    return ("general graphs x instantiation property in {rdf:type, custom, P31} x {all classes, subsets of classes in "
            "three spellings, shape maps (node / FOCUS patterns in both positions with IRIs, prefixed names, 'a', "
            "wildcards / SPARQL selectors; labels as IRIs or prefixed names; fixed and JSON syntax), all classes + "
            "shape map}; the tracker's own snapshot (hook 'tracked') and the header counts are compared with the "
            "denotation computed by the specification")
