"""Relational properties (C09, C12, C13, C14, C16, C17): pairs / triples of real executions on related inputs or
configurations, judged by spec/Trace_Campaign.tla (Core instantiated once per run)."""
import copy
import random
import itertools
from harness import gen, runner, tlc, common, pipeline, rdfmodel as M


def run_block(case, res):
    sch = res.get("schema") or {"parse": "ok", "shapes": []}
    return {"graph": case["graph"], "cfg": runner.tla_cfg(case["cfg"]),
            "status": res["status"] if res["status"] in ("ok", "raise", "hang") else "harness",
            "parse": "ok" if sch["parse"] == "ok" else "error",
            "shapes": [{"key": s["key"], "n": s["n"], "stem": s.get("stem", ""),
                        "tcs": [{"inv": t["inv"], "p": t["p"], "k": t["k"], "ks": t["ks"], "card": t["card"],
                                 "abs": t["abs"], "ratio": t["ratio"], "com": t["com"]} for t in s["tcs"]]}
                       for s in sch["shapes"]]}


def campaign(out, prop, items, mine, label=""):
    """items: list of dicts {id, rel, how, a, b[, c]} where a/b/c are cases"""
    flat = []
    for it in items:
        for slot in ("a", "b", "c"):
            if slot in it:
                c = dict(it[slot])
                c["id"] = "%s.%s" % (it["id"], slot)
                flat.append(c)
    results = runner.run_cases(flat)
    by_id = {}
    for c, r in zip(flat, results):
        if r["status"] == "harness-error":
            raise common.Machinery("harness error: %s\n%s" % (r.get("exc"), r.get("trace", "")))
        by_id[c["id"]] = (c, r)
    traces = []
    for it in items:
        a = run_block(*by_id[it["id"] + ".a"])
        b = run_block(*by_id[it["id"] + ".b"])
        c = run_block(*by_id[it["id"] + ".c"]) if "c" in it else b
        traces.append({"id": it["id"], "rel": it["rel"], "how": it.get("how", ""), "prop": prop, "a": a, "b": b, "c": c})
    verdicts, stats = tlc.validate_batch("Trace_Campaign", "Trace_Campaign.cfg", traces, procs=10)
    out.traces += len(flat)
    out.evaluations += len(items)
    out.notes["monitor_states"] = out.notes.get("monitor_states", 0) + stats["states"]
    ties = 0
    for it in items:
        v = verdicts[it["id"]]
        if any(c.endswith(".tieorder") for c in v["clauses"]):
            ties += 1
        sig = pipeline.signature(it["a"])
        if sig:
            out.nontrivial.add(sig + it["rel"] + it.get("how", ""))
        clauses = v["clauses"]
        if any(c.startswith("MACHINERY") for c in clauses):
            raise common.Machinery("campaign %s: %s" % (it["id"], clauses))
        case = {"campaign": {k: it[k] for k in it if k != "id"}}
        if "SKIP.crashed" in clauses:
            bad = [(slot,) + by_id["%s.%s" % (it["id"], slot)] for slot in ("a", "b", "c") if slot in it
                   and by_id["%s.%s" % (it["id"], slot)][1]["status"] != "ok"]
            unknown = [(slot, r_) for slot, c_, r_ in bad if not pipeline.known_crash(c_, r_)]
            if unknown:
                # one of the related runs gave no output at all, at a call site that is not a recorded finding: the relation
                # cannot hold
                slot, r_ = unknown[0]
                out.violation("%s.%s:%s@%s" % (prop, r_["status"], r_["exc"], r_["frame"]), case, "run %s of %s %s %s" % (slot, label, it["rel"], it.get("how", "")))
            else:
                out.skip("a run crashed at a call site recorded as a known finding of C04")
            continue
        out.judge_clauses(clauses, case, mine, detail="%s %s %s" % (label, it["rel"], it.get("how", "")))
        out.sample({"campaign": it["id"], "rel": it["rel"], "how": it.get("how", ""), "triples": len(it["a"]["graph"]),
                    "cfg_a": {k: it["a"]["cfg"][k] for k in ("mode", "thr", "inverse", "keepLess", "cap")}, "clauses": clauses})
    out.notes["campaigns_with_ties"] = out.notes.get("campaigns_with_ties", 0) + ties


def with_cfg(case, **over):
    c = copy.deepcopy(case)
    c["cfg"].update(over)
    return c


def with_graph(case, T):
    c = copy.deepcopy(case)
    c["graph"] = M.to_json_graph(T)
    return c


def base_cases(rnd, n, prefix, bnodes=True, schema_share=.3, inverse=None, ors=False, **fixed):
    cases = []
    for i in range(n):
        r = rnd.random()
        if r < schema_share:
            T = gen.schema_graph(rnd, bnodes=bnodes)
        elif bnodes and r < schema_share + .25:
            T = gen.dense_graph(rnd)
        elif r > .85:
            T = gen.multi_graph(rnd)
        else:
            T = gen.general_graph(rnd, bnodes=bnodes, max_nodes=6)
        cfg = gen.switches(rnd, inverse=inverse, ors=ors)
        classes = gen.classes_of(T)
        if classes and rnd.random() < .3:
            cfg["mode"] = "classes"
            cfg["targets"] = rnd.sample(classes, rnd.randint(1, len(classes)))
        cfg.update(fixed)
        cases.append(gen.case("%s%d" % (prefix, i), T, **cfg))
    return cases


# ------------------------------------------------------------------------------------------------ C09
def relabel(T, rnd):
    labels = sorted({t[1] for s, p, o in T for t in (s, o) if t[0] == "BNode"})
    new = ["_:r%d" % i for i in range(len(labels))]
    if len(labels) <= 7 and rnd.random() < .5:      # labels that are prefixes of one another
        new = ["_:r1", "_:r12", "_:r1x", "_:r", "_:r120", "_:q7", "_:q70"][:len(labels)]
    rnd.shuffle(new)
    ren = dict(zip(labels, new))

    def f(t):
        return ("BNode", ren[t[1]]) if t[0] == "BNode" else t
    return [(f(s), p, f(o)) for s, p, o in T]


def check_c09(out, tier):
    rnd = random.Random(common.seed() + 9)
    mine = lambda c: c.startswith("C09.")
    pipeline.l1(out, ["MC_C09_%s.cfg" % tier])
    k = pipeline.SIZES[tier]
    items = []
    for c in base_cases(rnd, 110 * k, "c09p", ors=False):
        if rnd.random() < .2:        # a document saved as "UTF-8 with signature": the byte order mark belongs to no statement
            c["bom"] = True
        T = M.from_json_graph(c["graph"])
        T2 = list(T)
        rnd.shuffle(T2)
        items.append({"id": c["id"], "rel": "same", "how": "perm", "a": c, "b": with_graph(c, T2)})
        T3 = relabel(T, rnd)
        rnd.shuffle(T3)
        items.append({"id": c["id"] + "r", "rel": "same", "how": "relabel", "a": c, "b": with_graph(c, T3)})
    # classes that are described in the data (typed with a meta-class, linked from / to their instances) under inverse paths:
    # the document grouped by subject - type triple first, type triple last - against a shuffled one
    for i in range(40 * k):
        T = gen.general_graph(rnd, max_nodes=5, bnodes=rnd.random() < .3, hierarchy=1.0)
        c = gen.case("c09h%d" % i, T, **gen.switches(rnd, inverse=True))
        def grouped(type_first):
            return sorted(T, key=lambda t: (str(t[0]), (t[1] == M.RDF_TYPE) != type_first, str(t)))
        T2 = list(T)
        rnd.shuffle(T2)
        items.append({"id": c["id"] + "f", "rel": "same", "how": "perm", "a": with_graph(c, grouped(True)), "b": with_graph(c, T2)})
        items.append({"id": c["id"] + "l", "rel": "same", "how": "perm", "a": with_graph(c, grouped(False)), "b": with_graph(c, grouped(True))})
    # documents that describe their own properties (an IRI is a predicate in one statement and a node in another)
    for i in range(24 * k):
        T = gen.general_graph(rnd, max_nodes=5, bnodes=rnd.random() < .2, hierarchy="props")
        c = gen.case("c09d%d" % i, T, **gen.switches(rnd))
        T2 = list(T)
        rnd.shuffle(T2)
        items.append({"id": c["id"], "rel": "same", "how": "perm", "a": c, "b": with_graph(c, T2)})
    # one subject, several objects of one property with different sets of classes
    for i in range(30 * k):
        T = gen.typed_fan_graph(rnd)
        c = gen.case("c09t%d" % i, T, **gen.switches(rnd))
        T2 = list(T)
        rnd.shuffle(T2)
        items.append({"id": c["id"], "rel": "same", "how": "perm", "a": c, "b": with_graph(c, T2)})
    # two classes that share a local name in different namespaces get one label (a recorded finding of C05 / C02): whatever the
    # library prints for them, it must not depend on the order of the statements
    for i in range(12 * k):
        A1, A2 = M.iri(M.EX + "Agent"), M.iri(gen.OTHER + "Agent")
        xs = [M.iri(M.EX + "g%d" % j) for j in range(4)]
        T = [(xs[0], M.RDF_TYPE, A1), (xs[1], M.RDF_TYPE, A2), (xs[2], M.RDF_TYPE, M.iri(M.EX + "Order")), (xs[3], M.RDF_TYPE, M.iri(M.EX + "Order")),
             (xs[2], M.EX + "buyer", xs[0]), (xs[2], M.EX + "seller", xs[1]), (xs[3], M.EX + "buyer", xs[0])]
        if rnd.random() < .5:
            T.append((xs[3], M.EX + "seller", xs[1]))
        rnd.shuffle(T)
        c = gen.case("c09n%d" % i, T, **gen.switches(rnd))
        T2 = list(T)
        rnd.shuffle(T2)
        items.append({"id": c["id"], "rel": "same", "how": "perm", "a": c, "b": with_graph(c, T2)})
    # exhaustive permutations of small documents
    small = [c for c in base_cases(rnd, 12 * k, "c09x", schema_share=0)]
    for c in small:
        T = M.from_json_graph(c["graph"])[:5]
        c = with_graph(c, T)
        perms = list(itertools.permutations(T))
        for j, pm in enumerate(perms if tier == "thorough" else rnd.sample(perms, min(12, len(perms)))):
            items.append({"id": "%s.%d" % (c["id"], j), "rel": "same", "how": "perm", "a": c, "b": with_graph(c, list(pm))})
    campaign(out, "C09", items, mine)
    pinned_campaigns(out, "C09", mine)
    return ("pairs (document, permuted document) and (document, blank nodes consistently renamed + permuted) over general and "
            "schema-consistent graphs x inference switches; all permutations of 5-statement documents (thorough) / 12 sampled; "
            "evidence (shapes, counts, keys, facts) must be equal outside the (shape, direction, property) groups in which the "
            "specification finds a frequency tie; chosen constraints equal outside those groups")


# ------------------------------------------------------------------------------------------------ C12
def check_c12(out, tier):
    rnd = random.Random(common.seed() + 12)
    mine = lambda c: c.startswith("C12.")
    k = pipeline.SIZES[tier]
    pipeline.l1(out, [("MC_Pair", "MC_C12_%s.cfg" % tier), "MC_C12b_%s.cfg" % tier])
    grid = [[0, 1], [1, 4], [1, 3], [1, 2], [51, 100], [2, 3], [3, 4], [1, 1]]
    items = []
    for c in base_cases(rnd, 90 * k, "c12g"):
        pairs = [(i, j) for i in range(len(grid)) for j in range(i, len(grid))]
        for (i, j) in rnd.sample(pairs, 3 if tier == "quick" else 8):
            items.append({"id": "%s.%d.%d" % (c["id"], i, j), "rel": "thr", "a": with_cfg(c, thr=grid[i]), "b": with_cfg(c, thr=grid[j])})
    # multi-valued properties: several exact cardinalities compete with '+' for one (property, kind); interior thresholds filter
    # some of them, and with keep_less_specific the '+' line is a fact about '+' at every threshold
    for i in range(40 * k):
        c = gen.case("c12m%d" % i, gen.multi_graph(rnd), **gen.switches(rnd))
        if rnd.random() < .5:
            c = with_cfg(c, disableExact=True, keepLess=True, allCompliant=rnd.random() < .4)
        pairs = [(a, b) for a in range(len(grid)) for b in range(a, len(grid))]
        for (a, b) in rnd.sample(pairs, 3 if tier == "quick" else 8):
            items.append({"id": "%s.%d.%d" % (c["id"], a, b), "rel": "thr", "a": with_cfg(c, thr=grid[a]), "b": with_cfg(c, thr=grid[b])})
    # shapes that empty at different thresholds while another shape refers to them through consecutive constraints
    for i in range(30 * k):
        c = gen.fan_case(rnd, "c12f%d" % i)
        pairs = [(a, b) for a in range(len(grid)) for b in range(a, len(grid))]
        # (threshold 0 against the thresholds at which leaves empty, then random pairs)
        for (a, b) in [(0, 3), (0, 5), (0, 7)] + rnd.sample(pairs, 3 if tier == "quick" else 8):
            items.append({"id": "%s.%d.%d" % (c["id"], a, b), "rel": "thr", "a": with_cfg(c, thr=grid[a]), "b": with_cfg(c, thr=grid[b])})
    # incoming disjunctions that lose all arms but one when the source shapes empty
    for i in range(16 * k):
        c = gen.inverse_or_case(rnd, "c12o%d" % i)
        for (a, b) in [(0, 4), (0, 6), (3, 7), (0, 7)]:
            items.append({"id": "%s.%d.%d" % (c["id"], a, b), "rel": "thr", "a": with_cfg(c, thr=grid[a]), "b": with_cfg(c, thr=grid[b])})
    # one Shaper asked for several thresholds in any order (the profile is computed once and kept): what it answers for t1 and t2
    # is related in the same way, whatever was asked before - in particular a threshold that emptied a shape
    for i in range(40 * k):
        c = gen.fan_case(rnd, "c12h%d" % i) if i % 2 == 0 else rnd.choice([gen.chain_case, gen.or_fan_case])(rnd, "c12h%d" % i)
        for j in range(2 if tier == "quick" else 6):
            a, b = sorted(rnd.sample(range(len(grid)), 2))
            hist_a = [rnd.choice(grid[b:]) for _ in range(rnd.randint(1, 2))]      # higher thresholds first, then t1
            hist_b = [rnd.choice(grid) for _ in range(rnd.randint(0, 1))]
            ca, cb = with_cfg(c, thr=grid[a]), with_cfg(c, thr=grid[b])
            ca["before"], cb["before"] = hist_a, hist_b
            items.append({"id": "%s.%d.%d.%d" % (c["id"], a, b, j), "rel": "thr", "how": "same Shaper, after %s / %s" % (hist_a, hist_b), "a": ca, "b": cb})
    campaign(out, "C12", items, mine)
    pinned_campaigns(out, "C12", mine)
    # the two end points are absolute statements: threshold 0 omits nothing observed, threshold 1 keeps only universal features
    ends = []
    # (shape-map shapes too: there a shape can be left without any feature that reaches the threshold - no rdf:type line keeps it alive)
    for c in base_cases(rnd, 60 * k, "c12e") + [gen.fan_case(rnd, "c12ef%d" % i) for i in range(12 * k)] + \
            [gen.single_constraint_case(rnd, "c12es%d" % i) for i in range(12 * k)]:
        c = with_cfg(c, report="mixed", comments=True)
        ends.append(with_cfg(c, thr=[0, 1]))
        e1 = with_cfg(c, thr=[1, 1])
        e1["id"] = c["id"] + "one"
        ends.append(e1)
        e2 = with_cfg(c, thr=rnd.choice(grid[1:-1]))
        e2["id"] = c["id"] + "mid"
        ends.append(e2)
    res, verdicts = pipeline.run_and_judge(out, ends, ["C02", "C12"], lambda c: c.startswith("C12."))
    for c in ends:
        for cl in verdicts[c["id"]]["clauses"]:
            if cl.startswith("C02.") and c["cfg"]["thr"] in ([0, 1], [1, 1]):
                out.violation("C12.endpoint(%s)" % cl, c, "threshold %s" % c["cfg"]["thr"])
    return ("ordered pairs of thresholds from {0, 1/4, 1/3, 1/2, 0.51, 2/3, 3/4, 1} on the same graph and configuration (fresh "
            "Shapers): keys and shapes at t2 are a subset of those at t1, every alternative printed at both carries the same "
            "figure; thresholds 0 and 1 judged against ExpectedKeys")


# ------------------------------------------------------------------------------------------------ C13
def check_c13(out, tier):
    rnd = random.Random(common.seed() + 13)
    mine = lambda c: c.startswith("C13.")
    k = pipeline.SIZES[tier]
    pipeline.l1(out, [("MC_Pair", "MC_C13_%s_%s.cfg" % (r, tier)) for r in ("relax", "noopt", "noexact", "or")])
    items = []
    for c in base_cases(rnd, 100 * k, "c13g", ors=False):
        c = with_cfg(c, report="mixed", decimals=-1, comments=True, minIri=rnd.random() < .35)     # (the IRI-stem node constraint is part of a shape)
        pres = rnd.choice([dict(report="abs"), dict(report="ratio"), dict(comments=False), dict(decimals=rnd.choice([0, 1, 2])),
                           dict(nsDict=gen.NSDICT), dict(nsDict=[[M.EX, ""], [M.XSD, "weso-s"]])])
        # (a custom shapes_namespace is a presentation option too: it leaves the references behind, known finding
        #  KF.C13.shapesns, exercised by its pinned reproducer)
        items.append({"id": c["id"] + "p", "rel": "present", "how": ",".join(pres), "a": c, "b": with_cfg(c, **pres)})
        items.append({"id": c["id"] + "x", "rel": "relax", "a": with_cfg(c, allCompliant=False), "b": with_cfg(c, allCompliant=True)})
        items.append({"id": c["id"] + "o", "rel": "noopt", "a": with_cfg(c, allowOpt=True), "b": with_cfg(c, allowOpt=False)})
        items.append({"id": c["id"] + "e", "rel": "noexact", "a": with_cfg(c, disableExact=False), "b": with_cfg(c, disableExact=True)})
        items.append({"id": c["id"] + "d", "rel": "or", "a": with_cfg(c, disableOr=True, redundantOr=False),
                      "b": with_cfg(c, disableOr=False, redundantOr=rnd.random() < .5)})
    # shapes whose only constraint is the one to rewrite (shape-map shapes over untyped one-property nodes)
    for i in range(30 * k):
        c = gen.single_constraint_case(rnd, "c13s%d" % i)
        items.append({"id": c["id"] + "p", "rel": "present", "how": "comments", "a": c, "b": with_cfg(c, comments=False)})
        items.append({"id": c["id"] + "x", "rel": "relax", "a": with_cfg(c, allCompliant=False), "b": with_cfg(c, allCompliant=True)})
        items.append({"id": c["id"] + "o", "rel": "noopt", "a": with_cfg(c, allCompliant=True, allowOpt=True), "b": with_cfg(c, allCompliant=True, allowOpt=False)})
        items.append({"id": c["id"] + "e", "rel": "noexact", "a": with_cfg(c, disableExact=False), "b": with_cfg(c, disableExact=True)})
    # output file vs returned string, also for outputs that cross the serializer's 5 000-line flush boundary
    for j, c in enumerate(base_cases(rnd, 12 * k, "c13f", ors=False)):
        items.append({"id": c["id"], "rel": "present", "how": "file", "a": c, "b": with_cfg(c, sink="file")})
    # very wide classes: a ratio just below 100 % (249 / 250, 2 499 / 2 500) prints as "100" with few decimals - the constraint
    # is below 100 % all the same
    for j, (n, dec) in enumerate([(250, 0), (400, 0), (2500, 1)] if tier == "quick" else [(250, 0), (400, 0), (2500, 1), (2500, 0), (201, 0), (1000, 0)]):
        T = [(M.iri(M.EX + "w%d" % i), M.RDF_TYPE, M.iri(M.EX + "Wide")) for i in range(n)]
        T += [(M.iri(M.EX + "w%d" % i), M.EX + "nick", M.lit("n")) for i in range(n - 1)]
        T += [(M.iri(M.EX + "w%d" % i), M.EX + "name", M.lit("m")) for i in range(n)]
        w = gen.case("c13w%d" % j, T, report="mixed", decimals=-1, comments=True, allCompliant=rnd.random() < .7)
        items.append({"id": w["id"], "rel": "present", "how": "decimals, %d instances" % n, "a": w, "b": with_cfg(w, decimals=dec)})
    big = gen.case("c13big", many_shapes(700 if tier == "quick" else 1500), report="mixed")
    items.append({"id": "c13big", "rel": "present", "how": "file>5000 lines", "a": big, "b": with_cfg(big, sink="file")})
    campaign(out, "C13", items, mine)
    pinned_campaigns(out, "C13", mine)
    # decimals = d: every printed ratio is the d-place rounding of the exact ratio (judged by the C01 clauses of the monitor)
    dec = []
    for c in base_cases(rnd, 80 * k, "c13d"):
        dec.append(with_cfg(c, report=rnd.choice(["mixed", "ratio"]), decimals=rnd.choice([0, 0, 1, 2, 3, 4])))
    # a class of 2 500 instances, one of them without the property: 99.96 % is '100.0' with one decimal, '99.96' with two
    for j, d_ in enumerate([1, 2]):
        n = 2500
        T = [(M.iri(M.EX + "w%d" % i), M.RDF_TYPE, M.iri(M.EX + "Wide")) for i in range(n)]
        T += [(M.iri(M.EX + "w%d" % i), M.EX + "nick", M.lit("n")) for i in range(n - 1)]
        dec.append(gen.case("c13dw%d" % j, T, report="ratio", decimals=d_, comments=True, allCompliant=j == 0))
    for p in common.load_pinned("C13"):
        if "case" in p and "campaign" not in p:
            c = dict(p["case"])
            c["id"] = "pin:" + p["file"]
            dec.append(c)
    res, verdicts = pipeline.run_and_judge(out, dec, ["C01"], lambda c: False)
    for c in dec:
        for cl in verdicts[c["id"]]["clauses"]:
            if cl == "KF.C13.truncation":
                out.known(cl)
            elif cl.startswith("C01.") and cl != "C01.header":
                out.violation("C13.decimals(%s)" % cl, c, "decimals=%d" % c["cfg"]["decimals"])
    return ("pairs of fresh Shapers differing in exactly one option, for random assignments of the other switches: presentation "
            "options (report mode, comments, decimals, namespaces, shapes namespace) leave the constraint set unchanged; "
            "all-compliant = Relax; allow_opt off = ?->*; disable_exact = {k>1}->+; disjunctions only over listed alternatives; "
            "decimals=d prints the d-place rounding")


def many_shapes(n):
    """n one-instance classes with three constraints each: > 7 lines per shape in the ShExC output"""
    T = []
    for i in range(n):
        x = M.iri(M.EX + "m%d" % i)
        T.append((x, M.RDF_TYPE, M.iri(M.EX + "K%d" % i)))
        T.append((x, M.EX + "p", M.lit("v")))
        T.append((x, M.EX + "q", M.lit("1", M.XSD_INTEGER)))
    return T


# ------------------------------------------------------------------------------------------------ C14
def reverse_graph(T, inst_prop=M.RDF_TYPE):
    return [((o, p, s) if (p != inst_prop and M.is_node(o)) else (s, p, o)) for s, p, o in T]


def check_c14(out, tier):
    rnd = random.Random(common.seed() + 14)
    mine = lambda c: c.startswith("C14.")
    k = pipeline.SIZES[tier]
    pipeline.l1(out, [("MC_Pair", "MC_C14_%s.cfg" % tier)])
    items = []
    for c in base_cases(rnd, 130 * k, "c14g", bnodes=False, schema_share=.2, ors=True):
        T = M.from_json_graph(c["graph"])
        R = sorted(set(reverse_graph(T)), key=str)
        rnd.shuffle(R)
        if len(R) != len(T):
            continue
        if rnd.random() < .3:
            # nodes selected one by one (shape-map node selectors), among them nodes that are only ever objects: their shape is
            # made of incoming constraints alone
            allnodes = sorted({t for s_, p_, o_ in T for t in (s_, o_) if t[0] == "IRI" and p_ != M.RDF_TYPE})
            if allnodes:
                sm = []
                for x in rnd.sample(allnodes, rnd.randint(1, min(4, len(allnodes)))):
                    sm.append({"label": M.EX + "shapes/L%d" % rnd.randint(0, 1), "labelSpelling": "bracket", "spelling": "bracket",
                               "kind": "node", "node": list(x)})
                c = with_cfg(c, mode="shapemap", items=sm, targets=[])
        elif rnd.random() < .35:
            # a requested class without instances keeps an empty shape (remove_empty_shapes off) that reports 0 instances - with
            # inverse paths as without
            cl = gen.classes_of(T)
            c = with_cfg(c, mode="classes", targets=rnd.sample(cl, rnd.randint(0, len(cl))) + [M.EX + "Absent"], removeEmpty=False,
                         report=rnd.choice(["mixed", "abs"]), comments=True)
        if rnd.random() < .3:       # "the same figures" also means the same rounding: a number of decimals applies to both directions
            c = with_cfg(c, decimals=rnd.choice([1, 2, 2, 3]), report=rnd.choice(["mixed", "ratio"]), comments=True)
        items.append({"id": c["id"], "rel": "inverse", "a": with_cfg(c, inverse=True), "b": with_cfg(c, inverse=False),
                      "c": with_cfg(with_graph(c, R), inverse=False)})
    # nodes that are only ever objects, selected one by one together with nodes that have outgoing triples: what is known about a
    # sink node is its incoming links
    for i in range(24 * k):
        T = gen.general_graph(rnd, bnodes=False, max_nodes=6, rich_literals=False, hierarchy=False)
        subs = {s_ for s_, _p, _o in T}
        sinks = sorted({o_ for _s, p_, o_ in T if o_[0] == "IRI" and p_ != M.RDF_TYPE and o_ not in subs})
        if not sinks:
            continue
        picked = rnd.sample(sinks, rnd.randint(1, min(2, len(sinks)))) + rnd.sample(sorted(subs), rnd.randint(0, min(2, len(subs))))
        sm = [{"label": M.EX + "shapes/L%d" % (j % 2), "labelSpelling": "bracket", "spelling": "bracket", "kind": "node", "node": list(x)}
              for j, x in enumerate(picked)]
        c = gen.case("c14k%d" % i, T, **gen.switches(rnd, ors=rnd.random() < .3))
        c = with_cfg(c, mode="shapemap", items=sm, targets=[], nsDict=gen.NSDICT)
        R = sorted(set(reverse_graph(T)), key=str)
        rnd.shuffle(R)
        if len(R) != len(T):
            continue
        items.append({"id": c["id"], "rel": "inverse", "a": with_cfg(c, inverse=True), "b": with_cfg(c, inverse=False),
                      "c": with_cfg(with_graph(c, R), inverse=False)})
    # incoming links of one property from subjects of several classes with very different frequencies, thresholds between them
    for i in range(30 * k):
        T = gen.sources_graph(rnd)
        c = gen.case("c14s%d" % i, T, **gen.switches(rnd, ors=rnd.random() < .3))
        c = with_cfg(c, thr=rnd.choice([[1, 3], [1, 2], [51, 100], [2, 3], [3, 4]]))
        R = sorted(set(reverse_graph(T)), key=str)
        rnd.shuffle(R)
        items.append({"id": c["id"], "rel": "inverse", "a": with_cfg(c, inverse=True), "b": with_cfg(c, inverse=False),
                      "c": with_cfg(with_graph(c, R), inverse=False)})
    # classes of 49, 98, 103, 107 instances that all receive a link (n * (1 / n) is not 1 in floating point for these n), and of
    # 5 with 3 linked
    for j, (n, kk) in enumerate([(49, 49), (98, 98), (103, 103), (107, 107), (5, 3)]):
        nodes = [M.iri(M.EX + "t%d" % i) for i in range(n)]
        T = [(x, M.RDF_TYPE, M.iri(M.EX + "T")) for x in nodes] + [(M.iri(M.EX + "src%d" % i), M.EX + "has", nodes[i]) for i in range(kk)]
        rnd.shuffle(T)
        c = gen.case("c14w%d" % j, T, report="mixed", comments=True, allCompliant=True, keepLess=rnd.random() < .5)
        R = sorted(set(reverse_graph(T)), key=str)
        items.append({"id": c["id"], "rel": "inverse", "a": with_cfg(c, inverse=True), "b": with_cfg(c, inverse=False),
                      "c": with_cfg(with_graph(c, R), inverse=False)})
    campaign(out, "C14", items, mine)
    pinned_campaigns(out, "C14", mine)
    # "the same figures": with a number of decimals the incoming lines print their ratios under the same rounding rule as the
    # outgoing ones (judged by the C01 clauses of the monitor on the run with inverse paths)
    dec = []
    for c in base_cases(rnd, 40 * k, "c14d", bnodes=False, schema_share=.2, inverse=True) + \
            [gen.case("c14ds%d" % i, gen.sources_graph(rnd), **gen.switches(rnd, inverse=True)) for i in range(10 * k)]:
        dec.append(with_cfg(c, inverse=True, report=rnd.choice(["mixed", "ratio"]), decimals=rnd.choice([1, 2, 2, 3, 4]), comments=True))
    res, verdicts = pipeline.run_and_judge(out, dec, ["C01"], lambda c: False)
    for c in dec:
        for cl in verdicts[c["id"]]["clauses"]:
            if cl.startswith("C01.") and cl != "C01.header":
                out.violation("C14.figures(%s)" % cl, c, "inverse paths with decimals=%d" % c["cfg"]["decimals"])
    return ("triples of runs on IRI-node graphs: (G, inverse_paths), (G, no inverse), (Reverse(G), no inverse): the direct part of "
            "the first equals the second (counts, constraints, facts); the flipped inverse part of the first equals the "
            "non-literal direct part of the third outside tie groups")


# ------------------------------------------------------------------------------------------------ C16
def check_c16(out, tier):
    rnd = random.Random(common.seed() + 16)
    k = pipeline.SIZES[tier]
    pipeline.l1(out, ["MC_C16_%s.cfg" % tier, ("MC_Pair", "MC_C16_pair_%s.cfg" % tier)])
    caps, same = [], []
    for c in base_cases(rnd, 120 * k, "c16c", schema_share=.1):
        T = M.from_json_graph(c["graph"])
        classes = gen.classes_of(T)
        sizes = [sum(1 for s, p, o in T if p == M.RDF_TYPE and o[1] == cl) for cl in classes] or [1]
        cap = rnd.randint(1, max(sizes) + 1)
        cc = with_cfg(c, cap=cap)
        if rnd.random() < .25:      # "document order" of a list of files is the order of the list, whatever the files are called
            cc["channel"] = rnd.choice(["files", "zips"])
            cc["parts"] = rnd.randint(2, 4)
        caps.append(cc)
        if cap >= max(sizes):
            same.append({"id": c["id"] + "big", "rel": "same", "how": "cap>=max", "a": with_cfg(c, cap=0), "b": cc})
    res, verdicts = pipeline.run_and_judge(out, caps, ["C01", "C02", "C10"], lambda c: False)
    for c in caps:
        for cl in verdicts[c["id"]]["clauses"]:
            if cl.startswith("KF."):
                continue
            if cl.startswith(("C01.", "C02.", "C10.")):
                out.violation("C16.cap(%s)" % cl, c, "instances_cap=%d" % c["cfg"]["cap"])
    ign = []
    for c in base_cases(rnd, 90 * k, "c16n", schema_share=.1):
        # (a namespace is a string prefix: it need not end in '/' or '#' - 'http://example.org/p' has p0, p1, p2 as direct children)
        nss = rnd.choice([[M.EX], [gen.EX2], [M.EX, gen.OTHER], [gen.OTHER], ["http://example.org"], [M.RDF], [M.EX + "p"], [M.EX + "p", gen.OTHER],
                          [M.EX, gen.EX2], [gen.EX2, M.EX], [gen.OTHER, M.EX, gen.EX2], ["http://example.org", gen.EX2]])
        if rnd.random() < .25:
            # namespaces are plain strings: characters that mean something to a regular expression ('(', ')', '+', '?', '.', '$', '[')
            # are ordinary IRI characters; a look-alike namespace must not be caught by them
            odd = rnd.choice(["http://example.org/onto_(v2)/", "http://example.org/c++/", "http://example.org/a.b/", "http://example.org/q?x=[1]$/"])
            alike = {"http://example.org/onto_(v2)/": "http://example.org/onto_v2/", "http://example.org/c++/": "http://example.org/ccc/",
                     "http://example.org/a.b/": "http://example.org/axb/", "http://example.org/q?x=[1]$/": "http://example.org/qx=1/"}[odd]
            T0 = M.from_json_graph(c["graph"])
            subs = sorted({t[0] for t in T0})
            extra = []
            for x in rnd.sample(subs, min(len(subs), rnd.randint(1, 3))):
                extra.append((x, odd + "code", M.lit("c")))
                if rnd.random() < .7:
                    extra.append((x, alike + "code", M.lit("d")))
            c = with_graph(c, T0 + extra)
            nss = [odd] + (nss if rnd.random() < .5 else [])
        # (the option belongs to the Shaper, not to a reader: the graph may come as an rdflib Graph or a Turtle / RDF-XML text too)
        ci = pipeline.via_channel(rnd, with_cfg(c, ignoreNs=nss), M.from_json_graph(c["graph"]), p=.4)
        ign.append(ci)
        if M.RDF not in nss:
            T = [t for t in M.from_json_graph(c["graph"]) if not any(
                t[1].startswith(ns) and "/" not in t[1][len(ns):] and "#" not in t[1][len(ns):] for ns in nss)]
            same.append({"id": c["id"] + "drop", "rel": "same", "how": "dropns", "a": ci, "b": with_graph(with_cfg(c, ignoreNs=[]), T)})
    res, verdicts = pipeline.run_and_judge(out, ign, ["C01", "C02"], lambda c: False)
    for c in ign:
        for cl in verdicts[c["id"]]["clauses"]:
            if cl.startswith("KF."):
                continue
            if cl.startswith(("C01.", "C02.")):
                out.violation("C16.ignore(%s)" % cl, c, "namespaces_to_ignore=%s" % c["cfg"]["ignoreNs"])
    campaign(out, "C16", same, lambda c: c.startswith("C16."))
    return ("instances_cap = k in 1..max class size + 1 (all classes / target classes, multi-typed nodes): header counts, figures, "
            "keys and the tracker snapshot are judged against the specification's FirstK membership (first k instantiation "
            "statements in document order); cap >= every class size equals no cap; namespaces_to_ignore (incl. a namespace that "
            "is a prefix of another, one without trailing separator, and the rdf namespace) judged against DropNs with class "
            "membership from the full graph, and against the run on the restricted document")


# ------------------------------------------------------------------------------------------------
def pinned_campaigns(out, prop, mine):
    pins = [p for p in common.load_pinned(prop) if "campaign" in p]
    items = []
    for p in pins:
        it = dict(p["campaign"])
        it["id"] = "pin:" + p["file"]
        items.append(it)
    if items:
        campaign(out, prop, items, mine, label="pinned reproducer")


def replay(prop, d):
    out = common.Outcome(prop, "quick")
    case = d["case"]
    if case and "campaign" in case:
        it = dict(case["campaign"])
        it["id"] = "replay"
        campaign(out, prop, [it], lambda c: c.startswith(prop + "."), label="replay")
    elif case:
        pipeline.run_and_judge(out, [case], pipeline.ALL_WANT, lambda c: True, label="replay")
    return common.finish(out, rule="replay")


REGISTRY = {"C09": check_c09, "C12": check_c12, "C13": check_c13, "C14": check_c14, "C16": check_c16}


# ------------------------------------------------------------------------------------------------ C17
def c17_graph(rnd):
    """instance IRIs from 1-3 namespaces with shared / unshared path segments, one IRI extending another by a separator,
    'https://' as the only common part, a urn: family; a few blank-node instances"""
    families = [
        ["http://ex.org/a/b1", "http://ex.org/a/b2", "http://ex.org/a/c"],
        ["http://ex.org/ab/c", "http://ex.org/abd", "http://ex.org/ab#e"],
        ["https://a.org/x", "https://b.org/y"],
        ["http://a.org/x", "http://b.org/y"],
        ["urn:x:1", "urn:x:2", "urn:y:3"],
        ["http://ex.org/id/taxon:9606", "http://ex.org/id/gene:1017", "http://ex.org/id/gene:22"],      # ':' after the last '/'
        ["http://ex.org/id/gene:1", "http://ex.org/id/gene:2", "http://ex.org/id/plain"],
        ["http://ex.org/data/item1", "http://ex.org/data/item12", "http://ex.org/data/it"],
        ["http://ex.org/p#a", "http://ex.org/p#b"],
        ["http://ex.org/only"],
        ["http://ex.org/docs/report", "http://ex.org/docs/report/sec1", "http://ex.org/docs/report/sec2"],
        ["http://ex.org/a#", "http://ex.org/a#x/y", "http://ex.org/a#x/z"],
        ["urn:a:b", "urn:a:b:c:1", "urn:a:b:c:2"],
        ["ab", "ac"],
        # schemes followed by one or three slashes: what the members share may be nothing but the scheme
        ["file:///data/people/ann", "file:///export/staff/bob", "file:///data/people/cid"],
        ["file:/srv/a/x1", "file:/var/b/x2"],
        ["file:///data/people/ann", "file:///data/people/bob"],
    ]
    classes = [M.EX + "C%d" % i for i in range(rnd.randint(1, 3))]
    T = set()
    for c in classes:
        fam = rnd.choice(families)
        members = rnd.sample(fam, rnd.randint(1, len(fam)))
        if rnd.random() < .2:
            members.append(rnd.choice(rnd.choice(families)))
        nodes = [M.iri(x) for x in members]
        if rnd.random() < .15:
            nodes.append(M.bnode("b%d" % rnd.randint(0, 2)))
        for n in nodes:
            T.add((n, M.RDF_TYPE, M.iri(c)))
            for p in (M.EX + "p", M.EX + "q"):
                for _ in range(rnd.choice([0, 1, 1, 2])):
                    r = rnd.random()
                    o = rnd.choice(nodes) if r < .4 else (M.lit("v%d" % rnd.randint(0, 3)) if r < .6 else
                                                          (M.lit("w%d" % rnd.randint(0, 2), lang="en") if r < .75 else
                                                           # values that look like mark-up, a placeholder, an IRI between corners, a number, two lines
                                                           (M.lit(rnd.choice(["<p>Hello</p>", "<unknown>", "<http://ex.org/items/1>", "33001", "l1\nl2", "a \\ b"]))
                                                            if r < .88 else M.bnode("u0"))))
                    T.add((n, p, o))
    T = sorted(T, key=str)
    rnd.shuffle(T)
    return T


def _c17_observe(case):
    """one run: stems / examples as printed + the tracker's membership"""
    r = runner.run_case(case, want_text=True)
    if r["status"] != "ok":
        return r
    cfg = case["cfg"]
    if cfg["format"] == "shacl":
        import rdflib
        g = rdflib.Graph()
        g.parse(data=r["text"], format="turtle")
        S = rdflib.Namespace("http://www.w3.org/ns/shacl#")
        r["shacl_patterns"] = {str(s): str(o) for s, o in g.subject_objects(S.pattern)}
        r["shacl_shapes"] = [str(s) for s in g.subjects(rdflib.RDF.type, S.NodeShape)]
    return r


def _example_id(text, cfg):
    t = text.strip()
    if t.startswith("<") and t.endswith(">"):
        return t[1:-1]
    if t.startswith('"') and t.endswith('"'):
        # a ShExC string: the value it denotes (the line readers keep the escapes of the source, an rdflib-parsed value is printed raw)
        from harness import shexc
        inner, out_, i = t[1:-1].replace(shexc.EXAMPLE_LINE_FEED, "\n"), [], 0
        while i < len(inner):
            if inner[i] == "\\" and i + 1 < len(inner) and inner[i + 1] in 'nrt"\\':
                out_.append({"n": "\n", "r": "\r", "t": "\t", '"': '"', "\\": "\\"}[inner[i + 1]])
                i += 2
            else:
                out_.append(inner[i])
                i += 1
        return "".join(out_)
    for ns, pre in cfg["nsDict"] + [[cfg["shapesNs"], ""]]:
        if t.startswith(pre + ":"):
            return ns + t[len(pre) + 1:]
    return t


def _value_id(term):
    k, v = term
    if k == M.LANG_STRING:
        return v.rsplit("@", 1)[0]
    return v


def check_c17(out, tier):
    rnd = random.Random(common.seed() + 17)
    mine = lambda c: c.startswith("C17.")
    for cfg in (["MC_C17_quick.cfg"] if tier == "quick" else ["MC_C17_thorough.cfg", "MC_C17_thorough2.cfg"]):
        r = tlc.check_model("MC_MinIri", cfg, workers=8, timeout=3000)
        out.add_l1("MC_MinIri/" + cfg, r)
        for inv in r["violated"]:
            out.violation("L1.%s" % inv, {"model": cfg}, r["out"][-1500:])
    k = pipeline.SIZES[tier]
    cases, items = [], []
    for i in range(170 * k):
        T = c17_graph(rnd)
        cfg = gen.switches(rnd)
        cfg.update(minIri=rnd.random() < .8, examples=rnd.choice(["", "", "shape", "cons", "all"]), format=rnd.choice(["shexc", "shexc", "shacl"]),
                   nsDict=rnd.choice([[], gen.NSDICT]), report="mixed")
        if cfg["format"] == "shacl":
            cfg["examples"] = ""
        c = gen.case("c17g%d" % i, T, **cfg)
        cases.append(c)
        if cfg["format"] == "shexc":
            items.append({"id": c["id"] + "rel", "rel": "present", "how": "minIri/examples", "a": with_cfg(c, minIri=False, examples=""), "b": c})
    results = runner.run_many(_c17_observe, cases)
    traces = []
    for c, r in zip(cases, results):
        if r.get("status") == "harness-error":
            raise common.Machinery("harness error: %s\n%s" % (r.get("exc"), r.get("trace", "")))
        if r["status"] != "ok":
            # an extraction of the property's own family that gives no output cannot show stems or examples that come from the data
            if pipeline.known_crash(c, r):
                out.skip("crashed at a call site recorded as a known finding of C04")
            else:
                out.violation("C17.%s:%s@%s" % (r["status"], r.get("exc", ""), r.get("frame", "")), c, "examples / min-IRI run")
            continue
        cfg = c["cfg"]
        T = M.from_json_graph(c["graph"])
        members = {}
        for node, key in r.get("tracked", []):
            members.setdefault(key, []).append(node[1])
        labels = dict(runner.expected_labels(c))
        shapes = []
        if cfg["format"] == "shexc":
            if r["schema"]["parse"] != "ok":
                out.violation("C17.unparseable", c, r["schema"]["parse"])
                continue
            for s in r["schema"]["shapes"]:
                inst = members.get(s["key"], [])
                tcs = []
                for t in s["tcs"]:
                    vals = [_value_id(o if not t["inv"] else sub) for sub, p, o in T
                            if p == t["p"] and ((sub[1] in inst and not t["inv"]) or (o[1] in inst and t["inv"] and M.is_node(o)))]
                    ex = t["examples"][0] if t["examples"] else ""
                    tcs.append({"hasExample": bool(t["examples"]), "example": _example_id(ex, cfg) if ex else "", "values": vals})
                shapes.append({"key": s["key"], "instances": [list(x) for x in inst], "instanceIds": inst, "stem": list(s["stem"]),
                               "hasExample": bool(s["example"]), "example": _example_id(s["example"], cfg) if s["example"] else "", "tcs": tcs})
        else:
            for key, label in labels.items():
                if label not in r["shacl_shapes"]:
                    continue
                inst = members.get(key, [])
                pat = r["shacl_patterns"].get(label, "")
                shapes.append({"key": key, "instances": [list(x) for x in inst], "instanceIds": inst, "stem": list(pat[1:] if pat.startswith("^") else pat),
                               "hasExample": False, "example": "", "tcs": []})
        traces.append({"id": c["id"], "minIri": cfg["minIri"], "shapeExamples": cfg["examples"] in ("shape", "all") and cfg["format"] == "shexc",
                       "shapes": shapes})
    verdicts, stats = tlc.validate_batch("Trace_MinIri", "Trace_MinIri.cfg", traces, procs=10)
    out.traces += len(traces)
    out.evaluations += len(traces)
    out.notes["monitor_states"] = stats["states"]
    byid = {c["id"]: c for c in cases}
    for t in traces:
        v = verdicts[t["id"]]
        if any(cl.startswith("MACHINERY") for cl in v["clauses"]):
            raise common.Machinery("C17 %s: %s" % (t["id"], v["clauses"]))
        if len(t["shapes"]) >= 1 and any(len(s["instanceIds"]) >= 2 for s in t["shapes"]):
            out.nontrivial.add(t["id"])
        out.judge_clauses(v["clauses"], byid[t["id"]], mine,
                          detail="stems=%s" % [("".join(s["stem"]), s["instanceIds"]) for s in t["shapes"]][:3])
        out.sample({"case": t["id"], "shapes": [{"instances": s["instanceIds"], "stem": "".join(s["stem"]), "example": s["example"]} for s in t["shapes"]][:2],
                    "clauses": v["clauses"]})
    campaign(out, "C17", items, mine)
    return ("graphs whose instance IRIs come from families with shared / unshared path segments, an IRI extending another by a separator "
            "character, 'https://' or 'http://' as the only common part, urn: IRIs, scheme-less strings, blank-node instances x examples_mode "
            "x inverse_paths x ShExC / SHACL (sh:pattern): the printed stem is compared by TLC with MinIri!StemSpec over the tracker's own "
            "membership, examples must be members / actual values, and the constraints must equal those of the run without either option")


REGISTRY["C17"] = check_c17
