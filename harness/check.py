"""Single entry point of every registered check:  check.py <ID> --tier quick|thorough [--replay <file>]

exit 0: the property held on everything explored (known findings are printed as KNOWN-FINDING lines)
exit 1: a violation that known_findings.json does not list (VIOLATION property=<id> replay=<path>)
exit 2: the machinery itself failed (TLC error, harness bug, vacuous run): never a verdict
"""
import os
import sys
import json
import argparse
import traceback

sys.path.insert(0, os.path.dirname(os.path.dirname(os.path.abspath(__file__))))
os.environ.setdefault("SHEXER_VERIF", "1")
if "PYTHONHASHSEED" not in os.environ:
    # string hashing is fixed when the interpreter starts: start again with a fixed seed, so that a run (and the replay of what it
    # found) sees rdflib's sets - the order in which an rdflib-parsed graph is read back - in the same order every time
    os.environ["PYTHONHASHSEED"] = "0"
    os.execv(sys.executable, [sys.executable] + sys.argv)

from harness import common, tlc


def registry():
    from harness import pipeline
    reg = {
        "C01": pipeline.check_c01, "C02": pipeline.check_c02, "C03": pipeline.check_c03, "C04": pipeline.check_c04,
        "C10": pipeline.check_c10,
    }
    for mod_name in ("relations", "readers", "facade", "docs", "channels"):
        try:
            mod = __import__("harness." + mod_name, fromlist=["REGISTRY"])
        except ImportError as e:
            if "harness." + mod_name not in str(e) and mod_name not in str(e):
                raise
            continue
        reg.update(mod.REGISTRY)
    return reg


def replay(prop, path):
    from harness import pipeline
    with open(path) as fh:
        d = json.load(fh)
    reg = registry()
    mod = sys.modules[reg[prop].__module__]
    if hasattr(mod, "replay"):
        return mod.replay(prop, d)
    out = common.Outcome(prop, "quick")
    case = d["case"]
    pref = prop + "."
    pipeline.run_and_judge(out, [case], pipeline.ALL_WANT, lambda c: c.startswith(pref), crash_is_mine=(prop == "C04"), label="replay")
    return common.finish(out, rule="replay of " + path)


def main():
    ap = argparse.ArgumentParser()
    ap.add_argument("prop")
    ap.add_argument("--tier", default=os.environ.get("VERIF_TIER", "quick"), choices=["quick", "thorough"])
    ap.add_argument("--replay")
    a = ap.parse_args()
    try:
        if a.replay:
            return replay(a.prop, a.replay)
        reg = registry()
        if a.prop not in reg:
            print("no check registered for", a.prop)
            return 2
        out = common.Outcome(a.prop, a.tier)
        ret = reg[a.prop](out, a.tier)
        rule, kw = (ret, {}) if not isinstance(ret, tuple) else ret
        return common.finish(out, rule=rule or "", assumptions=ASSUMPTIONS, **kw)
    except (common.Machinery, tlc.TlcFailure) as e:
        print("MACHINERY-FAILURE %s: %s" % (a.prop, e))
        return 2
    except Exception:
        traceback.print_exc()
        print("MACHINERY-FAILURE %s: unexpected exception in the harness" % a.prop)
        return 2


ASSUMPTIONS = [
    "TLC / SANY / CommunityModules are correct",
    "the Python projections (ShExC projector, renderers, label mapping) are faithful: they only tokenise and build records, every judgement is made by TLC",
    "L1 results are exhaustive only within the constants of the MC_*.cfg models; L3 on larger inputs is sampling",
]

if __name__ == "__main__":
    sys.exit(main())
