"""ShExC projector: emitted text -> abstract schema (records of strings / small integers).

Deliberately dumb: it tokenises and builds records; every judgement about the records is made in TLA+.
The well-formedness of the text itself (C05) is decided by spec/ShExCDoc.tla on the token stream produced
by `lex()`; the projector only needs the line-oriented layout sheXer uses.
"""
import re

PLUS, STAR, OPT = 0, -1, -2
RATIO_SCALE = 10000


class ProjectError(Exception):
    pass


_RATIO = re.compile(r'^\s*(-?[0-9]+(?:\.[0-9]+)?(?:[eE][-+]?[0-9]+)?)\s*%')
_ABS = re.compile(r'(\d+) instances?\b')
_CARD = re.compile(r'^(?:[+*?]|\{\d+\})$')


def card_of(tok):
    if tok in ("", None):
        return 1
    if tok == "+":
        return PLUS
    if tok == "*":
        return STAR
    if tok == "?":
        return OPT
    m = re.fullmatch(r'\{(\d+)\}', tok)
    if m:
        return int(m.group(1))
    raise ProjectError("cardinality? " + repr(tok))


def split_comment(line):
    """code part, comment part (without '#'); '#' inside <...> or "..." does not start a comment"""
    depth = 0
    quoted = False
    i = 0
    while i < len(line):
        ch = line[i]
        if quoted:
            if ch == "\\":
                i += 1
            elif ch == '"':
                quoted = False
        elif ch == '"':
            quoted = True
        elif ch == "<":
            depth += 1
        elif ch == ">":
            depth = max(0, depth - 1)
        elif ch == "#" and depth == 0:
            return line[:i], line[i + 1:]
        i += 1
    return line, None


def figure(text):
    """-> (abs, ratio) ; -1 where the text does not carry that number; ratio scaled by RATIO_SCALE"""
    a, r = -1, -1
    if text is None:
        return a, r
    m = _RATIO.match(text)
    if m:
        r = int(round(float(m.group(1)) * RATIO_SCALE))
        rest = text[m.end():]
        m2 = re.match(r'\s*\((\d+) instances?\)', rest)
        if m2:
            a = int(m2.group(1))
    else:
        m = re.match(r'^\s*(\d+) instances?\.', text)
        if m:
            a = int(m.group(1))
    return a, r


class Schema(object):
    def __init__(self, text):
        self.prefixes = []          # [prefix, namespace] in order of appearance (duplicates kept)
        self.shapes = []
        self._pmap = {}
        self._parse(text)

    def expand(self, tok):
        tok = tok.strip()
        if tok.startswith("<") and tok.endswith(">"):
            return tok[1:-1]
        if ":" in tok:
            p, l = tok.split(":", 1)
            if p in self._pmap:
                return self._pmap[p] + l
        raise ProjectError("cannot expand " + repr(tok))

    def val(self, tok):
        tok = tok.strip()
        if tok in ("IRI", "BNode", "NONLITERAL"):
            return tok
        if tok.startswith("@"):
            return "@" + self.expand(tok[1:])
        if tok.startswith("[") and tok.endswith("]"):
            return self.expand(tok[1:-1].strip())
        return self.expand(tok)

    def _parse(self, text):
        cur = None
        last_tc = None
        pending = None
        for raw in _join_examples(text.split("\n")):
            line = raw.rstrip()
            st = line.strip()
            if not st:
                continue
            if cur is None and st.upper().startswith("PREFIX"):
                m = re.match(r'PREFIX\s+([^:\s]*):\s*<([^>]*)>\s*$', st)
                if not m:
                    raise ProjectError("prefix line? " + repr(st))
                self.prefixes.append([m.group(1), m.group(2)])
                self._pmap.setdefault(m.group(1), m.group(2))
                continue
            if st == "{":
                if pending is None:
                    raise ProjectError("'{' without a shape label")
                cur = pending
                pending = None
                self.shapes.append(cur)
                continue
            if st.startswith("}"):
                if cur is None:
                    raise ProjectError("'}' outside a shape")
                m = re.match(r'^\}\s*//\s*rdfs:comment\s+(.*)$', st)
                if m:
                    cur["example"] = m.group(1).strip()
                cur = None
                last_tc = None
                continue
            if cur is None:
                code, cmt = split_comment(st)
                toks = code.split()
                if not toks:
                    raise ProjectError("stray comment outside a shape: " + repr(st))
                stem = ""
                rest = toks[1:]
                if rest:
                    m = re.match(r'^\[<(.*)>~\]$', rest[0])
                    if not (m and len(rest) == 2 and rest[1] == "AND"):
                        raise ProjectError("shape header? " + repr(st))
                    stem = m.group(1)
                a, _ = figure(cmt)
                pending = {"label": self.expand(toks[0]), "n": a, "stem": stem, "example": "", "tcs": []}
                continue
            if st.startswith("//"):
                m = re.match(r'^//\s*rdfs:comment\s+(.*?)\s*;?\s*$', st)
                if last_tc is not None and m:
                    last_tc["examples"].append(m.group(1))
                continue
            if st.startswith("#"):
                body = st[1:]
                a, r = figure(body)
                m = re.search(r'obj:\s*(.+?)\.\s*Cardinality:\s*(\S+)\s*$', body)
                if m and last_tc is not None:
                    last_tc["com"].append([self.val(m.group(1)), card_of(m.group(2)), a, r])
                    continue
                m = re.search(r'with cardinality\s*(\S+)\s*$', body)
                if m and last_tc is not None:
                    last_tc["selfcom"].append([card_of(m.group(1)), a, r])
                    continue
                raise ProjectError("comment line? " + repr(st))
            code, cmt = split_comment(st)
            toks = code.split()
            if toks and toks[-1].endswith(";") and toks[-1] != ";":
                toks[-1] = toks[-1][:-1]
                toks.append(";")
            semi = False
            if toks and toks[-1] == ";":
                semi = True
                toks = toks[:-1]
            inv = False
            if toks and toks[0] == "^":
                inv = True
                toks = toks[1:]
            if len(toks) < 2:
                raise ProjectError("constraint line? " + repr(st))
            pred = self.expand(toks[0])
            rest = toks[1:]
            card = 1
            if rest and _CARD.match(rest[-1]):
                card = card_of(rest[-1])
                rest = rest[:-1]
            vals = []
            expect_val = True
            for t in rest:
                if expect_val:
                    vals.append(self.val(t))
                    expect_val = False
                elif t == "OR":
                    expect_val = True
                else:
                    raise ProjectError("constraint line? " + repr(st))
            if expect_val or not vals:
                raise ProjectError("constraint line? " + repr(st))
            a, r = figure(cmt)
            last_tc = {"inv": inv, "p": pred, "k": vals[0] if len(vals) == 1 else "", "ks": vals if len(vals) > 1 else [],
                       "card": card, "abs": a, "ratio": r, "com": [], "selfcom": [], "examples": [], "semi": semi}
            cur["tcs"].append(last_tc)
        if cur is not None or pending is not None:
            raise ProjectError("unterminated shape")


_EXAMPLE_OPEN = re.compile(r'^\s*(\}\s*)?//\s*rdfs:comment\s+"')
_EXAMPLE_END = re.compile(r'"(@[A-Za-z0-9-]+|\^\^\S+)?\s*;?\s*$')


EXAMPLE_LINE_FEED = "\ue000"      # stands for a raw line feed inside an example annotation (a private-use character)


def _join_examples(lines):
    """example annotations (examples_mode, outside C05) print the value as it is: a literal whose lexical form holds a line feed
    spreads over several lines of the document; they are one annotation"""
    out, i = [], 0
    while i < len(lines):
        line = lines[i]
        m = _EXAMPLE_OPEN.match(line)
        if m and not _EXAMPLE_END.search(line[m.end():]):
            j = i + 1
            while j < len(lines) and not _EXAMPLE_END.search(lines[j]):
                j += 1
            if j < len(lines):
                out.append(EXAMPLE_LINE_FEED.join([line] + lines[i + 1:j + 1]))
                i = j + 1
                continue
        out.append(line)
        i += 1
    return out


def project(text):
    s = Schema(text)
    return {"prefixes": s.prefixes, "shapes": s.shapes}


# ------------------------------------------------------------------------------------------------------
# Lexer for spec/ShExCDoc.tla: the token stream of the emitted text (comments dropped), by the ShExC lexical
# rules for the subset sheXer emits.  Token = {"t": type, "a": str, "b": str}
#   PREFIX-style keywords and node kinds are WORD tokens; IRIREF: a = the IRI; PNAME_NS: a = prefix;
#   PNAME_LN: a = prefix, b = local part; STRING: a = text; CARD: a = "{n}"; punctuation: t = the character
_ASCII_NAME_CHARS = set("ABCDEFGHIJKLMNOPQRSTUVWXYZabcdefghijklmnopqrstuvwxyz0123456789_.:%-")
# PN_CHARS_BASE beyond ASCII, plus the extra PN_CHARS (middle dot, combining marks, undertie)
_PN_RANGES = [(0xC0, 0xD6), (0xD8, 0xF6), (0xF8, 0x2FF), (0x370, 0x37D), (0x37F, 0x1FFF), (0x200C, 0x200D), (0x2070, 0x218F),
              (0x2C00, 0x2FEF), (0x3001, 0xD7FF), (0xF900, 0xFDCF), (0xFDF0, 0xFFFD), (0x10000, 0xEFFFF),
              (0xB7, 0xB7), (0x300, 0x36F), (0x203F, 0x2040)]


class _NameChars(object):
    def __contains__(self, ch):
        if ch in _ASCII_NAME_CHARS:
            return True
        o = ord(ch)
        return o > 127 and any(a <= o <= b for a, b in _PN_RANGES)


_NAME_CHARS = _NameChars()
_PUNCT = set("}[];@^~*+?")


def _local_ok(loc):
    if loc == "":
        return True
    if loc.endswith(".") or loc.startswith(("-", ".")):
        return False
    i = 0
    while i < len(loc):
        if loc[i] == "%":
            if not re.fullmatch(r'[0-9A-Fa-f]{2}', loc[i + 1:i + 3]):
                return False
            i += 3
        else:
            i += 1
    return True


def lex(text):
    """-> (tokens, error position or -1)"""
    toks = []
    i = 0
    n = len(text)
    while i < n:
        ch = text[i]
        if ch in " \t\r\n":
            i += 1
        elif ch == "#":
            while i < n and text[i] != "\n":
                i += 1
        elif ch == "<":
            j = text.find(">", i)
            if j == -1 or re.search(r'[\s<"{}|^`\\]', text[i + 1:j]):
                return toks, i
            toks.append({"t": "IRIREF", "a": text[i + 1:j], "b": ""})
            i = j + 1
        elif ch == '"':
            j = i + 1
            while j < n and text[j] != '"':
                if text[j] == "\\":
                    j += 1
                if j < n and text[j] == "\n":
                    return toks, i
                j += 1
            if j >= n:
                return toks, i
            toks.append({"t": "STRING", "a": text[i:j + 1], "b": ""})
            i = j + 1
        elif text.startswith("//", i):
            toks.append({"t": "ANNOT", "a": "//", "b": ""})
            i += 2
        elif ch == "{":
            m = re.compile(r'\{\d+\}').match(text, i)
            if m:
                toks.append({"t": "CARD", "a": m.group(0), "b": ""})
                i = m.end()
            else:
                toks.append({"t": "{", "a": "{", "b": ""})
                i += 1
        elif ch in _PUNCT:
            toks.append({"t": ch, "a": ch, "b": ""})
            i += 1
        elif ch in _NAME_CHARS:
            j = i
            while j < n and text[j] in _NAME_CHARS:
                j += 1
            word = text[i:j]
            if ":" in word:
                pre, loc = word.split(":", 1)
                if not re.fullmatch(r'(?:[A-Za-z\u00c0-\uffff](?:[A-Za-z0-9_.\u00b7-\uffff-]*[A-Za-z0-9_\u00b7-\uffff-])?)?', pre) or not _local_ok(loc):
                    return toks, i
                toks.append({"t": "PNAME_NS" if loc == "" else "PNAME_LN", "a": pre, "b": loc})
            else:
                if not re.fullmatch(r'[A-Za-z][A-Za-z0-9_]*', word):
                    return toks, i
                toks.append({"t": "WORD", "a": word, "b": ""})
            i = j
        else:
            return toks, i
    return toks, -1
