"""ShExC projector: emitted text -> abstract schema (records of strings / small integers).

Deliberately dumb: it tokenises and builds records; every judgement about the records is made in TLA+.
The well-formedness of the text itself (C05) is decided by spec/ShExCDoc.tla on the token stream produced
by `lex()`; the projector only needs the line-oriented layout sheXer uses.
"""
import re

PLUS, STAR, OPT = 0, -1, -2
RATIO_SCALE = 10000


class ProjectError(Exception):
    pass


_RATIO = re.compile(r'^\s*(-?[0-9]+(?:\.[0-9]+)?(?:[eE][-+]?[0-9]+)?)\s*%')
_ABS = re.compile(r'(\d+) instances?\b')
_CARD = re.compile(r'^(?:[+*?]|\{\d+\})$')


def card_of(tok):
    if tok in ("", None):
        return 1
    if tok == "+":
        return PLUS
    if tok == "*":
        return STAR
    if tok == "?":
        return OPT
    m = re.fullmatch(r'\{(\d+)\}', tok)
    if m:
        return int(m.group(1))
    raise ProjectError("cardinality? " + repr(tok))


def split_comment(line):
    """code part, comment part (without '#'); '#' inside <...> or "..." does not start a comment"""
    depth = 0
    quoted = False
    i = 0
    while i < len(line):
        ch = line[i]
        if quoted:
            if ch == "\\":
                i += 1
            elif ch == '"':
                quoted = False
        elif ch == '"':
            quoted = True
        elif ch == "<":
            depth += 1
        elif ch == ">":
            depth = max(0, depth - 1)
        elif ch == "#" and depth == 0:
            return line[:i], line[i + 1:]
        i += 1
    return line, None


def figure(text):
    """-> (abs, ratio) ; -1 where the text does not carry that number; ratio scaled by RATIO_SCALE"""
    a, r = -1, -1
    if text is None:
        return a, r
    m = _RATIO.match(text)
    if m:
        r = int(round(float(m.group(1)) * RATIO_SCALE))
        rest = text[m.end():]
        m2 = re.match(r'\s*\((\d+) instances?\)', rest)
        if m2:
            a = int(m2.group(1))
    else:
        m = re.match(r'^\s*(\d+) instances?\.', text)
        if m:
            a = int(m.group(1))
    return a, r


class Schema(object):
    def __init__(self, text):
        self.prefixes = []          # [prefix, namespace] in order of appearance (duplicates kept)
        self.shapes = []
        self._pmap = {}
        self._parse(text)

    def expand(self, tok):
        tok = tok.strip()
        if tok.startswith("<") and tok.endswith(">"):
            return tok[1:-1]
        if ":" in tok:
            p, l = tok.split(":", 1)
            if p in self._pmap:
                return self._pmap[p] + l
        raise ProjectError("cannot expand " + repr(tok))

    def val(self, tok):
        tok = tok.strip()
        if tok in ("IRI", "BNode", "NONLITERAL"):
            return tok
        if tok.startswith("@"):
            return "@" + self.expand(tok[1:])
        if tok.startswith("[") and tok.endswith("]"):
            return self.expand(tok[1:-1].strip())
        return self.expand(tok)

    def _parse(self, text):
        cur = None
        last_tc = None
        pending = None
        for raw in text.split("\n"):
            line = raw.rstrip()
            st = line.strip()
            if not st:
                continue
            if cur is None and st.upper().startswith("PREFIX"):
                m = re.match(r'PREFIX\s+([^:\s]*):\s*<([^>]*)>\s*$', st)
                if not m:
                    raise ProjectError("prefix line? " + repr(st))
                self.prefixes.append([m.group(1), m.group(2)])
                self._pmap.setdefault(m.group(1), m.group(2))
                continue
            if st == "{":
                if pending is None:
                    raise ProjectError("'{' without a shape label")
                cur = pending
                pending = None
                self.shapes.append(cur)
                continue
            if st.startswith("}"):
                if cur is None:
                    raise ProjectError("'}' outside a shape")
                m = re.match(r'^\}\s*//\s*rdfs:comment\s+(.*)$', st)
                if m:
                    cur["example"] = m.group(1).strip()
                cur = None
                last_tc = None
                continue
            if cur is None:
                code, cmt = split_comment(st)
                toks = code.split()
                if not toks:
                    raise ProjectError("stray comment outside a shape: " + repr(st))
                stem = ""
                rest = toks[1:]
                if rest:
                    m = re.match(r'^\[<(.*)>~\]$', rest[0])
                    if not (m and len(rest) == 2 and rest[1] == "AND"):
                        raise ProjectError("shape header? " + repr(st))
                    stem = m.group(1)
                a, _ = figure(cmt)
                pending = {"label": self.expand(toks[0]), "n": a, "stem": stem, "example": "", "tcs": []}
                continue
            if st.startswith("//"):
                m = re.match(r'^//\s*rdfs:comment\s+(.*?)\s*;?\s*$', st)
                if last_tc is not None and m:
                    last_tc["examples"].append(m.group(1))
                continue
            if st.startswith("#"):
                body = st[1:]
                a, r = figure(body)
                m = re.search(r'obj:\s*(.+?)\.\s*Cardinality:\s*(\S+)\s*$', body)
                if m and last_tc is not None:
                    last_tc["com"].append([self.val(m.group(1)), card_of(m.group(2)), a, r])
                    continue
                m = re.search(r'with cardinality\s*(\S+)\s*$', body)
                if m and last_tc is not None:
                    last_tc["selfcom"].append([card_of(m.group(1)), a, r])
                    continue
                raise ProjectError("comment line? " + repr(st))
            code, cmt = split_comment(st)
            toks = code.split()
            if toks and toks[-1].endswith(";") and toks[-1] != ";":
                toks[-1] = toks[-1][:-1]
                toks.append(";")
            semi = False
            if toks and toks[-1] == ";":
                semi = True
                toks = toks[:-1]
            inv = False
            if toks and toks[0] == "^":
                inv = True
                toks = toks[1:]
            if len(toks) < 2:
                raise ProjectError("constraint line? " + repr(st))
            pred = self.expand(toks[0])
            rest = toks[1:]
            card = 1
            if rest and _CARD.match(rest[-1]):
                card = card_of(rest[-1])
                rest = rest[:-1]
            vals = []
            expect_val = True
            for t in rest:
                if expect_val:
                    vals.append(self.val(t))
                    expect_val = False
                elif t == "OR":
                    expect_val = True
                else:
                    raise ProjectError("constraint line? " + repr(st))
            if expect_val or not vals:
                raise ProjectError("constraint line? " + repr(st))
            a, r = figure(cmt)
            last_tc = {"inv": inv, "p": pred, "k": vals[0] if len(vals) == 1 else "", "ks": vals if len(vals) > 1 else [],
                       "card": card, "abs": a, "ratio": r, "com": [], "selfcom": [], "examples": [], "semi": semi}
            cur["tcs"].append(last_tc)
        if cur is not None or pending is not None:
            raise ProjectError("unterminated shape")


def project(text):
    s = Schema(text)
    return {"prefixes": s.prefixes, "shapes": s.shapes}


# ------------------------------------------------------------------------------------------------------
# Lexer for spec/ShExCDoc.tla: the token stream of the emitted text (comments dropped), ShExC lexical rules
# for the subset sheXer emits.  Token = [type, text]
_TOKEN = re.compile(r'''
      (?P<ws>\s+)
    | (?P<comment>\#[^\n]*)
    | (?P<annot>//)
    | (?P<iriref><[^<>"{}|^`\\\x00-\x20]*>)
    | (?P<string>"(?:[^"\\\n]|\\.)*")
    | (?P<card>\{\d+\})
    | (?P<punct>[{}\[\];@^~*+?])
    | (?P<pname>[A-Za-z_][A-Za-z0-9_.-]*)?:(?P<local>(?:[A-Za-z0-9_:]|%[0-9A-Fa-f]{2})(?:[A-Za-z0-9_.:-]|%[0-9A-Fa-f]{2})*)?
    | (?P<word>[A-Za-z][A-Za-z0-9_]*)
''', re.X)


def lex(text):
    toks = []
    i = 0
    while i < len(text):
        m = _TOKEN.match(text, i)
        if not m or m.end() == i:
            return toks, i          # lexical error position
        i = m.end()
        g = m.lastgroup
        if m.group("ws") is not None or m.group("comment") is not None:
            continue
        t = m.group(0)
        if m.group("annot") is not None:
            toks.append(["ANNOT", t])
        elif m.group("iriref") is not None:
            toks.append(["IRIREF", t[1:-1]])
        elif m.group("string") is not None:
            toks.append(["STRING", t])
        elif m.group("card") is not None:
            toks.append(["CARD", t])
        elif m.group("punct") is not None:
            toks.append([t, t])
        elif m.group("word") is not None:
            toks.append(["WORD", t])
        else:
            # prefixed name: pname? ':' local?
            pre = m.group("pname") or ""
            loc = m.group("local")
            if loc is not None and loc.endswith("."):
                return toks, m.start()
            toks.append(["PNAME_NS" if loc is None else "PNAME_LN", pre + ":" + (loc or "")])
    return toks, -1
