"""developer tool: validate a seeded change and measure which checks catch it.

    mutants.py <seed-id> <property> <dir with patch.diff/demo.py/notes.md> [check ids, comma separated]

1. makes a scratch worktree of /repo HEAD outside /repo and /verif, applies patch.diff
2. confirms: the repository's suite still gives the baseline (182 passed), demo.py exits 1 with the change and 0 without it
3. runs the quick tier of the given checks (default: the property's own check) against the changed tree (SHEXER_REPO)
4. stores patch.diff, demo.py, notes.md and meta.json under /verif/seeded/<seed-id>/ and removes the worktree
"""
import os
import re
import sys
import json
import shutil
import subprocess
import tempfile
import time

ROOT = os.path.dirname(os.path.dirname(os.path.abspath(__file__)))


def sh(cmd, cwd=None, env=None, timeout=1800):
    e = dict(os.environ)
    e.pop("SHEXER_VERIF", None)
    if env:
        e.update(env)
    p = subprocess.run(cmd, shell=True, cwd=cwd, env=e, stdout=subprocess.PIPE, stderr=subprocess.STDOUT, text=True, timeout=timeout)
    return p.returncode, p.stdout


def main():
    seed_id, prop, src = sys.argv[1], sys.argv[2], sys.argv[3]
    checks = sys.argv[4].split(",") if len(sys.argv) > 4 else [prop]
    wt = tempfile.mkdtemp(prefix="shexer-seed-") + "/wt"
    meta = {"seed": seed_id, "property": prop, "source": "independent sub-agent given only the property text", "checks": {}}
    rc, out = sh("git -C /repo worktree add -q %s HEAD" % wt)
    assert rc == 0, out
    try:
        os.makedirs(os.path.join(wt, "MUTANT"), exist_ok=True)
        for f in ("patch.diff", "demo.py", "notes.md"):
            shutil.copy(os.path.join(src, f), os.path.join(wt, "MUTANT", f))
        rc0, out0 = sh("timeout 120 /venv/bin/python MUTANT/demo.py", cwd=wt)
        meta["demo_without_change_exit"] = rc0
        rc, out = sh("git apply MUTANT/patch.diff", cwd=wt)
        if rc != 0:
            rc, out = sh("git apply --3way MUTANT/patch.diff", cwd=wt)
        meta["patch_applies_to_head"] = (rc == 0)
        if rc != 0:
            meta["apply_error"] = out[-800:]
            print(json.dumps(meta, indent=1))
            return 2
        rc1, out1 = sh("timeout 120 /venv/bin/python MUTANT/demo.py", cwd=wt)
        meta["demo_with_change_exit"] = rc1
        meta["demo_output_tail"] = out1[-600:]
        rc, out = sh("timeout 900 /venv/bin/python -m pytest -q -p no:cacheprovider --timeout=900 2>&1 | tail -1", cwd=wt)
        meta["suite_with_change"] = out.strip().split("\n")[-1]
        m = re.search(r'(\d+) failed, (\d+) passed', out)
        meta["suite_ok"] = bool(m and m.group(2) == "182")
        for c in checks:
            t0 = time.time()
            rc, out = sh("timeout 2400 /venv/bin/python -u %s/harness/check.py %s --tier quick" % (ROOT, c),
                         env={"SHEXER_REPO": wt, "SHEXER_VERIF": "1", "VERIF_NO_EVIDENCE": "1"})
            viol = [l[:300] for l in out.split("\n") if l.startswith("VIOLATION")]
            meta["checks"][c] = {"exit": rc, "caught": rc == 1 and bool(viol), "violations": viol[:4], "wall_s": round(time.time() - t0, 1),
                                 "tail": out.strip().split("\n")[-1][:200]}
        dst = os.path.join(ROOT, "seeded", seed_id)
        os.makedirs(dst, exist_ok=True)
        if os.path.realpath(src) != os.path.realpath(dst):
            for f in ("patch.diff", "demo.py", "notes.md"):
                shutil.copy(os.path.join(src, f), os.path.join(dst, f))
        if os.path.exists(os.path.join(dst, "meta.json")):      # keep the hand-written annotations of an earlier evaluation
            with open(os.path.join(dst, "meta.json")) as fh:
                old = json.load(fh)
            for k in ("needs_to_manifest", "missed_at_first", "check_strengthened_by", "first_evaluation", "by_seed"):
                if k in old:
                    meta[k] = old[k]
            if "first_evaluation" not in meta and old.get("checks"):
                meta["first_evaluation"] = {c: {"caught": r.get("caught"), "violations": r.get("violations", [])[:1]} for c, r in old["checks"].items()}
        seed = os.environ.get("VERIF_SEED", "1")
        meta.setdefault("by_seed", {})[seed] = {c: r["caught"] for c, r in meta["checks"].items()}
        meta["valid"] = bool(meta["suite_ok"] and rc1 == 1 and rc0 == 0)
        with open(os.path.join(dst, "meta.json"), "w") as fh:
            json.dump(meta, fh, indent=1)
        print(json.dumps({k: meta[k] for k in ("seed", "valid", "suite_with_change", "demo_without_change_exit", "demo_with_change_exit")}))
        for c, r in meta["checks"].items():
            print("  check %s: %s (exit %d, %.0fs) %s" % (c, "CAUGHT" if r["caught"] else "missed", r["exit"], r["wall_s"], r["violations"][:1]))
    finally:
        sh("git -C /repo worktree remove --force %s" % wt)
        shutil.rmtree(os.path.dirname(wt), ignore_errors=True)
    return 0


if __name__ == "__main__":
    sys.exit(main())
