"""developer tool: the markdown table of DESIGN.md I.4 from seeded/*/meta.json"""
import os, json, glob
root = os.path.dirname(os.path.dirname(os.path.abspath(__file__)))
print("| seed | property | needs, to manifest | quick check | missed at first -> strengthened by |")
print("|---|---|---|---|---|")
for p in sorted([p for p in glob.glob(os.path.join(root, "seeded", "*", "meta.json")) if "_superseded" not in p]):
    m = json.load(open(p))
    own = m["checks"].get(m["property"], {})
    cl = ""
    if own.get("violations"):
        v = own["violations"][0]
        cl = v.split("clause=")[1].split(" ")[0] if "clause=" in v else ""
    others = [c for c, r in m["checks"].items() if c != m["property"] and r.get("caught")]
    caught = ("caught (%s)" % cl if own.get("caught") else "MISSED") + (", also " + ", ".join(others) if others else "")
    print("| %s | %s | %s | %s | %s |" % (m["seed"], m["property"], m.get("needs_to_manifest", "").replace("|", "/"), caught,
                                       m.get("check_strengthened_by", "-") if m.get("missed_at_first") else "-"))
