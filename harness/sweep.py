"""developer tool: run the quick tier of some checks under several seeds; prints one line per (check, seed)"""
import os, sys, subprocess, time
from concurrent.futures import ThreadPoolExecutor
props = sys.argv[1].split(",")
seeds = [int(x) for x in sys.argv[2].split(",")]
tier = sys.argv[3] if len(sys.argv) > 3 else "quick"
root = os.path.dirname(os.path.dirname(os.path.abspath(__file__)))
def one(ps):
    p, s = ps
    env = dict(os.environ, VERIF_SEED=str(s), VERIF_NO_EVIDENCE="1")
    t0 = time.time()
    r = subprocess.run(["/venv/bin/python", "-u", os.path.join(root, "harness/check.py"), p, "--tier", tier], env=env,
                       stdout=subprocess.PIPE, stderr=subprocess.STDOUT, text=True)
    lines = [l for l in r.stdout.split("\n") if l.startswith(("VIOLATION", "MACHINERY"))]
    return "%s seed=%d exit=%d %.0fs %s" % (p, s, r.returncode, time.time() - t0, " | ".join(l[:230] for l in lines[:3]))
with ThreadPoolExecutor(int(os.environ.get("SWEEP_PAR", "4"))) as ex:
    for line in ex.map(one, [(p, s) for p in props for s in seeds]):
        print(line, flush=True)
