"""C08 (delivery channels, spec/Delivery.tla), C15 (SPARQL endpoint, spec/EndpointCache.tla), C19 (determinism across processes)."""
import os
import sys
import gzip
import json
import lzma
import random
import shutil
import zipfile
import hashlib
import tempfile
import threading
import subprocess
import http.server
import socketserver
from harness import common, tlc, runner, gen, pipeline, relations, rdfmodel as M

# ------------------------------------------------------------------------------------------------ C08
FORMAT_EXT = {"nt": "nt", "tsv_spo": "tsv", "turtle_iter": "ttl", "turtle": "ttl", "n3": "n3", "xml": "xml", "json-ld": "json"}
SINGLE_READ = ("nt", "tsv_spo", "turtle_iter")       # the hand-written line readers: stable blank-node labels


def to_tsv(T):
    return "".join("%s\t<%s>\t%s\n" % (M.nt_term(s), p, M.nt_term(o)) for s, p, o in T)


def to_ttl_iter(T, rnd):
    """the dialect of the streaming reader: whitespace-separated tokens, one statement group per subject run"""
    lines = ["@prefix ex: <%s> ." % M.EX, "@prefix xsd: <%s> ." % M.XSD, ""]

    def term(t):
        k, v = t
        if k == "IRI":
            return ("ex:" + v[len(M.EX):]) if (v.startswith(M.EX) and "/" not in v[len(M.EX):] and "#" not in v[len(M.EX):]
                                                and ":" not in v[len(M.EX):] and rnd.random() < .6) else "<%s>" % v
        if k == "BNode":
            return v
        if k == M.LANG_STRING:
            lex, lang = v.rsplit("@", 1)
            return '"%s"@%s' % (M.nt_escape(lex), lang)
        if k == M.XSD_STRING:
            return '"%s"' % M.nt_escape(v)
        if k.startswith(M.XSD) and rnd.random() < .5:
            return '"%s"^^xsd:%s' % (M.nt_escape(v), k[len(M.XSD):])
        return '"%s"^^<%s>' % (M.nt_escape(v), k)
    i = 0
    while i < len(T):
        s, p, o = T[i]
        j = i
        group = []
        while j < len(T) and T[j][0] == s and len(group) < 4:
            group.append(T[j])
            j += 1
        out = [term(s)]
        for n, (_s, p2, o2) in enumerate(group):
            pt = "a" if (p2 == M.RDF_TYPE and rnd.random() < .5) else term(("IRI", p2))
            out.append(("  " if n else "") + pt + " " + term(o2) + (" ;" if n < len(group) - 1 else " ."))
        if rnd.random() < .5:
            lines.append(" ".join(x.strip() for x in out))
        else:
            lines.append(out[0] + " " + out[1])
            lines.extend(out[2:])
        i = j
    return "\n".join(lines) + "\n"


def serialize(T, fmt, rnd):
    if fmt == "nt":
        return M.to_nt(T)
    if fmt == "tsv_spo":
        return to_tsv(T)
    if fmt == "turtle_iter":
        return to_ttl_iter(T, rnd)
    g = M.to_rdflib(T)
    return g.serialize(format={"turtle": "turtle", "n3": "n3", "xml": "xml", "json-ld": "json-ld"}[fmt])


class Scratch(object):
    def __init__(self):
        self.dir = tempfile.mkdtemp(prefix="shexer-verif-c08-")
        self.n = 0

    def path(self, ext):
        self.n += 1
        return os.path.join(self.dir, "f%d.%s" % (self.n, ext))

    def close(self):
        shutil.rmtree(self.dir, ignore_errors=True)


def split(T, k, rnd):
    cuts = sorted(rnd.randint(0, len(T)) for _ in range(k - 1))
    parts, prev = [], 0
    for c in cuts + [len(T)]:
        parts.append(T[prev:c])
        prev = c
    return parts


def write_file(sc, text, ext, comp):
    if comp == "gz":
        p = sc.path(ext + ".gz")
        with gzip.open(p, "wt", encoding="utf8") as fh:
            fh.write(text)
    elif comp == "xz":
        p = sc.path(ext + ".xz")
        with lzma.open(p, "wt", encoding="utf8") as fh:
            fh.write(text)
    else:
        p = sc.path(ext)
        with open(p, "w", encoding="utf8") as fh:
            fh.write(text)
    return p


def delivery_kwargs(T, d, sc, rnd, port):
    """d: {fmt, carrier, parts, comp} -> Shaper graph kwargs"""
    fmt, carrier, comp = d["fmt"], d["carrier"], d["comp"]
    ext = FORMAT_EXT[fmt]
    kw = {"input_format": fmt}
    if comp:
        kw["compression_mode"] = comp
    if carrier == "raw":
        kw["raw_graph"] = serialize(T, fmt, rnd)
    elif carrier == "rdflib":
        kw["rdflib_graph"] = M.to_rdflib(T)
    elif carrier == "file":
        if comp == "zip":
            p = sc.path(ext + ".zip")
            with zipfile.ZipFile(p, "w") as z:
                for i, part in enumerate(split(T, d["parts"], rnd)):
                    z.writestr("m%d.%s" % (i, ext), serialize(part, fmt, rnd))
            kw["graph_file_input"] = p
        else:
            kw["graph_file_input"] = write_file(sc, serialize(T, fmt, rnd), ext, comp)
    elif carrier == "files":
        if comp == "zip":
            ps = []
            for part in split(T, d["parts"], rnd):
                p = sc.path(ext + ".zip")
                with zipfile.ZipFile(p, "w") as z:
                    for i, sub in enumerate(split(part, 2, rnd)):
                        z.writestr("m%d.%s" % (i, ext), serialize(sub, fmt, rnd))
                ps.append(p)
            kw["graph_list_of_files_input"] = ps
        else:
            kw["graph_list_of_files_input"] = [write_file(sc, serialize(part, fmt, rnd), ext, comp) for part in split(T, d["parts"], rnd)]
    elif carrier == "url":
        p = write_file(sc, serialize(T, fmt, rnd), ext, None)
        kw["url_graph_input"] = "http://127.0.0.1:%d/%s" % (port, os.path.basename(p))
    elif carrier == "urls":
        kw["list_of_url_input"] = ["http://127.0.0.1:%d/%s" % (port, os.path.basename(write_file(sc, serialize(part, fmt, rnd), ext, None)))
                                    for part in split(T, d["parts"], rnd)]
    return kw


def deliveries(rnd, bnodes):
    ds = []
    line_fmts = ["nt", "tsv_spo", "turtle_iter"]
    rdflib_fmts = ["turtle", "n3", "xml", "json-ld"]
    for fmt in line_fmts + ([] if bnodes else rdflib_fmts):
        ds.append({"fmt": fmt, "carrier": "raw", "parts": 1, "comp": None})
        ds.append({"fmt": fmt, "carrier": "file", "parts": 1, "comp": rnd.choice([None, "gz", "xz"])})
        ds.append({"fmt": fmt, "carrier": "file", "parts": rnd.randint(1, 3), "comp": "zip"})
        ds.append({"fmt": fmt, "carrier": "files", "parts": rnd.randint(2, 4), "comp": rnd.choice([None, None, "gz", "xz", "zip"])})
    ds.append({"fmt": "nt", "carrier": "rdflib", "parts": 1, "comp": None})
    if not bnodes:
        ds.append({"fmt": rnd.choice(["turtle", "nt", "xml"]), "carrier": "url", "parts": 1, "comp": None})
        ds.append({"fmt": rnd.choice(["turtle", "n3"]), "carrier": "urls", "parts": rnd.randint(2, 3), "comp": None})
    return ds


class _Quiet(http.server.SimpleHTTPRequestHandler):
    def log_message(self, *a):
        pass


def start_server(directory):
    handler = lambda *a, **kw: _Quiet(*a, directory=directory, **kw)      # noqa
    srv = socketserver.ThreadingTCPServer(("127.0.0.1", 0), handler)
    srv.daemon_threads = True
    th = threading.Thread(target=srv.serve_forever, daemon=True)
    th.start()
    return srv, srv.server_address[1]


def _run_delivery(payload):
    """payload: {id, case, kwargs}; returns run result + what each pass read (hook pass.triple)"""
    from shexer.shaper import Shaper
    from shexer import consts as C
    case = payload["case"]
    rec = runner.install_recorder()
    kw = runner.shaper_kwargs(case, graph_kwargs=payload["kwargs"])
    if "rdflib_graph" in kw and isinstance(kw["rdflib_graph"], list):
        kw["rdflib_graph"] = M.to_rdflib(M.from_json_graph(kw["rdflib_graph"]))
    res = {"id": payload["id"], "status": "ok", "exc": "", "frame": "", "phase": ""}
    st, sh, exc, frame = runner.call_guarded(lambda: Shaper(**kw), timeout=20)
    if st != "ok":
        res.update(status=st, exc=exc, frame=frame, phase="ctor")
        return res
    thr = case["cfg"]["thr"][0] / case["cfg"]["thr"][1]
    st, text, exc, frame = runner.call_guarded(lambda: sh.shex_graph(string_output=True, acceptance_threshold=thr), timeout=30)
    if st != "ok":
        res.update(status=st, exc=exc, frame=frame, phase="shex_graph")
        return res
    res["schema"] = runner.observe_schema(text, case)
    ev = rec.of("pass.triple") if rec is not None else []
    def norm(t):      # rdflib names blank nodes without the "_:" the line readers keep
        t = list(t)
        if t[0] == "BNode" and not t[1].startswith("_:"):
            t[1] = "_:" + t[1]
        if t[3] == "BNode" and not t[4].startswith("_:"):
            t[4] = "_:" + t[4]
        return t
    res["read1"] = [norm(e["triple"]) for e in ev if e["n_pass"] == 1]
    res["read2"] = [norm(e["triple"]) for e in ev if e["n_pass"] == 2]
    return res


def check_c08(out, tier):
    rnd = random.Random(common.seed() + 8)
    mine = lambda c: c.startswith("C08.")
    r = tlc.check_model("MC_Delivery", "MC_C08.cfg", workers=4, timeout=600)
    out.add_l1("MC_Delivery/MC_C08.cfg", r)
    for inv in r["violated"]:
        out.violation("L1.%s" % inv, {"model": "MC_Delivery"}, r["out"][-1500:])
    k = pipeline.SIZES[tier]
    sc = Scratch()
    srv, port = start_server(sc.dir)
    try:
        payloads, meta = [], {}
        for i in range(26 * k):
            bn = rnd.random() < .35
            if rnd.random() < .3:
                T = gen.schema_graph(rnd, bnodes=bn)
            else:
                T = gen.general_graph(rnd, bnodes=bn, max_nodes=6)
            cfg = gen.switches(rnd)
            cfg["report"] = "mixed"
            base = gen.case("c08g%d" % i, T, **cfg)
            payloads.append({"id": base["id"] + ".ref", "case": base, "kwargs": None})
            for j, d in enumerate(deliveries(rnd, bn)):
                kw = delivery_kwargs(T, d, sc, rnd, port)
                if "rdflib_graph" in kw:
                    kw["rdflib_graph"] = M.to_json_graph(T)          # built in the worker (graphs do not pickle cheaply)
                pid = "%s.d%d" % (base["id"], j)
                payloads.append({"id": pid, "case": base, "kwargs": kw})
                meta[pid] = (base, d)
        import time as _t
        _t0 = _t.time()
        results = runner.run_many(_run_delivery, payloads, chunk=10)
        out.notes["run_wall_s"] = round(_t.time() - _t0, 1)
    finally:
        srv.shutdown()
        srv.server_close()
        sc.close()
    by = {}
    for p, r_ in zip(payloads, results):
        if r_.get("status") == "harness-error":
            raise common.Machinery("harness error: %s\n%s" % (r_.get("exc"), r_.get("trace", "")))
        by[p["id"]] = r_
    traces = []
    for pid, (base, d) in meta.items():
        a = relations.run_block(base, by[base["id"] + ".ref"])
        b = relations.run_block(base, by[pid])
        b["read1"] = by[pid].get("read1", [])
        b["read2"] = by[pid].get("read2", [])
        a["read1"], a["read2"] = [], []
        traces.append({"id": pid, "rel": "delivery", "how": json.dumps(d), "prop": "C08", "a": a, "b": b, "c": b})
    verdicts, stats = tlc.validate_batch("Trace_Campaign", "Trace_Campaign.cfg", traces, procs=12)
    out.traces += len(payloads)
    out.evaluations += len(traces)
    out.notes["monitor_states"] = stats["states"]
    chan = {}
    for t in traces:
        v = verdicts[t["id"]]
        base, d = meta[t["id"]]
        key = "%s/%s%s" % (d["fmt"], d["carrier"], "/" + d["comp"] if d["comp"] else "")
        chan[key] = chan.get(key, 0) + 1
        out.nontrivial.add(t["id"])
        r_ = by[t["id"]]
        if r_["status"] != "ok":
            # the reference run succeeded on the same graph: a channel that cannot deliver it is a C08 failure
            if by[base["id"] + ".ref"]["status"] == "ok":
                out.violation("C08.channel.%s:%s@%s" % (r_["status"], r_["exc"], r_["frame"]), {"delivery": d, "case": base}, "delivery %s" % d)
            else:
                out.skip("reference run crashed (judged by C04)")
            continue
        if any(c.startswith("MACHINERY") for c in v["clauses"]):
            raise common.Machinery("C08 %s: %s" % (t["id"], v["clauses"]))
        if "SKIP.crashed" in v["clauses"]:
            out.skip("reference run crashed (judged by C04)")
            continue
        out.judge_clauses(v["clauses"], {"delivery": d, "case": base}, mine, detail="delivery %s" % d)
        out.sample({"delivery": d, "triples": len(base["graph"]), "read_pass2": len(t["b"]["read2"]), "clauses": v["clauses"]})
    out.notes["channels"] = chan
    return ("every graph (general / schema-consistent; blank-node instances only for the line-oriented readers and the Graph object) is "
            "delivered through every channel: {N-Triples, TSV, streaming Turtle} x {raw string, file, gz/xz file, zip with 1-3 members, "
            "2-4 files (plain / gz / xz / zip)} and, for IRI graphs, {Turtle, N3, RDF/XML, JSON-LD via rdflib} in the same carriers, an rdflib "
            "Graph object, a URL and a list of URLs (loopback HTTP); each is compared with the raw N-Triples reference by Trace_Campaign: "
            "the bag each pass read (hook pass.triple) equals the document, and the schema is the same outside tie groups")


def replay(prop, d):
    out = common.Outcome(prop, "quick")
    print("replay of %s cases: re-run the check with the same VERIF_SEED (deliveries are regenerated from the seed)" % prop)
    return common.finish(out, rule="replay")


REGISTRY = {"C08": check_c08}
