"""C08 (delivery channels, spec/Delivery.tla), C15 (SPARQL endpoint, spec/EndpointCache.tla), C19 (determinism across processes)."""
import os
import sys
import gzip
import json
import lzma
import random
import shutil
import zipfile
import hashlib
import tempfile
import threading
import subprocess
import http.server
import socketserver
from harness import common, tlc, runner, gen, pipeline, relations, rdfmodel as M

# ------------------------------------------------------------------------------------------------ C08
FORMAT_EXT = {"nt": "nt", "tsv_spo": "tsv", "turtle_iter": "ttl", "turtle": "ttl", "n3": "n3", "xml": "xml", "json-ld": "json"}
SINGLE_READ = ("nt", "tsv_spo", "turtle_iter")       # the hand-written line readers: stable blank-node labels


def to_tsv(T):
    return "".join("%s\t<%s>\t%s\n" % (M.nt_term(s), p, M.nt_term(o)) for s, p, o in T)


def to_ttl_iter(T, rnd):
    """the dialect of the streaming reader: whitespace-separated tokens, one statement group per subject run"""
    lines = ["@prefix ex: <%s> ." % M.EX, "@prefix xsd: <%s> ." % M.XSD, ""]
    # a document may declare a base and write some IRIs relative to it; the declaration belongs to that document alone (the next
    # file of a list, the next member of an archive starts without one).  Only documents whose IRIs are all http(s) do so: the
    # reader resolves every other <...> against the base (documented divergence of C07, spec/TtlReader.tla "o.urn")
    iris = [x[1] for t in T for x in (t[0], t[2]) if x[0] == "IRI"] + [t[1] for t in T]
    use_base = bool(T) and all(u.startswith("http") for u in iris) and rnd.random() < .35
    if use_base:
        lines.insert(rnd.randint(0, 2), "@base <%s> ." % M.EX)

    def term(t):
        k, v = t
        if k == "IRI" and use_base and v.startswith(M.EX) and len(v) > len(M.EX) and rnd.random() < .5:
            return "<%s>" % v[len(M.EX):]
        if k == "IRI":
            return ("ex:" + v[len(M.EX):]) if (v.startswith(M.EX) and "/" not in v[len(M.EX):] and "#" not in v[len(M.EX):]
                                                and ":" not in v[len(M.EX):] and rnd.random() < .6) else "<%s>" % v
        if k == "BNode":
            return v
        if k == M.LANG_STRING:
            lex, lang = v.rsplit("@", 1)
            return '"%s"@%s' % (M.nt_escape(lex), lang)
        if k == M.XSD_STRING:
            return '"%s"' % M.nt_escape(v)
        if k.startswith(M.XSD) and rnd.random() < .5:
            return '"%s"^^xsd:%s' % (M.nt_escape(v), k[len(M.XSD):])
        return '"%s"^^<%s>' % (M.nt_escape(v), k)
    i = 0
    while i < len(T):
        s, p, o = T[i]
        j = i
        group = []
        while j < len(T) and T[j][0] == s and len(group) < 4:
            group.append(T[j])
            j += 1
        out = [term(s)]
        # consecutive statements with the same predicate become an object list: 'p o1 , o2', on one line or broken after each comma
        runs = []
        for (_s, p2, o2) in group:
            if runs and runs[-1][0] == p2 and rnd.random() < .7:
                runs[-1][1].append(o2)
            else:
                runs.append([p2, [o2]])
        for n, (p2, objs) in enumerate(runs):
            pt = "a" if (p2 == M.RDF_TYPE and rnd.random() < .5) else term(("IRI", p2))
            end = " ;" if n < len(runs) - 1 else " ."
            if len(objs) > 1 and rnd.random() < .6:
                out.append(("  " if n else "") + pt + " " + term(objs[0]) + " ,")
                for m, o2 in enumerate(objs[1:]):
                    out.append("      " + term(o2) + (" ," if m < len(objs) - 2 else end))
            else:
                out.append(("  " if n else "") + pt + " " + " , ".join(term(o2) for o2 in objs) + end)
        if rnd.random() < .5 and not any(x.endswith(" ,") for x in out):
            lines.append(" ".join(x.strip() for x in out))
        else:
            lines.append(out[0] + " " + out[1])
            lines.extend(out[2:])
        i = j
    return "\n".join(lines) + "\n"


def serialize(T, fmt, rnd):
    if fmt == "nt":
        return M.to_nt(T)
    if fmt == "tsv_spo":
        return to_tsv(T)
    if fmt == "turtle_iter":
        return to_ttl_iter(T, rnd)
    g = M.to_rdflib(T)
    return g.serialize(format={"turtle": "turtle", "n3": "n3", "xml": "xml", "json-ld": "json-ld"}[fmt])


class Scratch(object):
    def __init__(self):
        self.dir = tempfile.mkdtemp(prefix="shexer-verif-c08-")
        self.n = 0

    def path(self, ext):
        self.n += 1
        return os.path.join(self.dir, "%s%d.%s" % (["f", "_part-", "f", ".f"][self.n % 4], self.n, ext))

    def close(self):
        shutil.rmtree(self.dir, ignore_errors=True)


def split(T, k, rnd):
    cuts = sorted(rnd.randint(0, len(T)) for _ in range(k - 1))
    parts, prev = [], 0
    for c in cuts + [len(T)]:
        parts.append(T[prev:c])
        prev = c
    return parts


def write_file(sc, text, ext, comp):
    if comp == "gz":
        p = sc.path(ext + ".gz")
        with gzip.open(p, "wt", encoding="utf8") as fh:
            fh.write(text)
    elif comp == "xz":
        p = sc.path(ext + ".xz")
        with lzma.open(p, "wt", encoding="utf8") as fh:
            fh.write(text)
    else:
        p = sc.path(ext)
        with open(p, "w", encoding="utf8") as fh:
            fh.write(text)
    return p


def _zip_members(z, parts, ext, fmt, rnd):
    """members at the top level or inside folders, with or without the explicit directory entries that `zip -r` and
    shutil.make_archive write ('more/' is an entry of its own, without content)"""
    folders = rnd.choice([[""], [""], ["", "more/"], ["data/"], ["", "a/b/"]])
    seen = set()
    for i, part in enumerate(parts):
        folder = folders[i % len(folders)]
        if folder and folder not in seen and rnd.random() < .5:
            seen.add(folder)
            for k in range(1, folder.count("/") + 1):
                z.writestr("/".join(folder.split("/")[:k]) + "/", "")
        seen.add(folder)
        # (a member is a member whatever its name starts with: '_part-0001.nt', '.m1.nt')
        z.writestr("%s%s%d.%s" % (folder, rnd.choice(["m", "m", "_part-", ".m"]), i, ext), serialize(part, fmt, rnd))


def delivery_kwargs(T, d, sc, rnd, port):
    """d: {fmt, carrier, parts, comp} -> Shaper graph kwargs"""
    fmt, carrier, comp = d["fmt"], d["carrier"], d["comp"]
    ext = FORMAT_EXT[fmt]
    kw = {"input_format": fmt}
    if comp:
        kw["compression_mode"] = comp
    if carrier == "raw":
        kw["raw_graph"] = serialize(T, fmt, rnd)
    elif carrier == "rdflib":
        kw["rdflib_graph"] = M.to_rdflib(T)
    elif carrier == "file":
        if comp == "zip":
            p = sc.path(ext + ".zip")
            with zipfile.ZipFile(p, "w") as z:
                _zip_members(z, split(T, d["parts"], rnd), ext, fmt, rnd)
            kw["graph_file_input"] = p
        else:
            kw["graph_file_input"] = write_file(sc, serialize(T, fmt, rnd), ext, comp)
    elif carrier == "files":
        if comp == "zip":
            ps = []
            for part in split(T, d["parts"], rnd):
                p = sc.path(ext + ".zip")
                with zipfile.ZipFile(p, "w") as z:
                    _zip_members(z, split(part, 2, rnd), ext, fmt, rnd)
                ps.append(p)
            kw["graph_list_of_files_input"] = ps
        else:
            kw["graph_list_of_files_input"] = [write_file(sc, serialize(part, fmt, rnd), ext, comp) for part in split(T, d["parts"], rnd)]
    elif carrier == "url":
        p = write_file(sc, serialize(T, fmt, rnd), ext, None)
        kw["url_graph_input"] = "http://127.0.0.1:%d/%s" % (port, os.path.basename(p))
    elif carrier == "urls":
        kw["list_of_url_input"] = ["http://127.0.0.1:%d/%s" % (port, os.path.basename(write_file(sc, serialize(part, fmt, rnd), ext, None)))
                                    for part in split(T, d["parts"], rnd)]
    return kw


def xml_expressible(T):
    """RDF/XML writes predicates as element names: the part after the last '/' or '#' must be an XML NCName"""
    import re
    for _s, p, _o in T:
        local = re.split(r"[/#]", p)[-1]
        if not re.match(r"^[A-Za-z_\u00c0-\uffff][\w.\-\u00b7]*$", local):
            return False
    return True


def deliveries(rnd, bnodes):
    ds = []
    line_fmts = ["nt", "tsv_spo", "turtle_iter"]
    rdflib_fmts = ["turtle", "n3", "xml", "json-ld"]
    for fmt in line_fmts + ([] if bnodes else rdflib_fmts):
        ds.append({"fmt": fmt, "carrier": "raw", "parts": 1, "comp": None})
        ds.append({"fmt": fmt, "carrier": "file", "parts": 1, "comp": rnd.choice([None, "gz", "xz"])})
        ds.append({"fmt": fmt, "carrier": "file", "parts": rnd.randint(1, 3), "comp": "zip"})
        ds.append({"fmt": fmt, "carrier": "files", "parts": rnd.randint(2, 4), "comp": rnd.choice([None, None, "gz", "xz", "zip"])})
    ds.append({"fmt": "nt", "carrier": "rdflib", "parts": 1, "comp": None})
    if not bnodes:
        ds.append({"fmt": rnd.choice(["turtle", "nt", "xml"]), "carrier": "url", "parts": 1, "comp": None})
        ds.append({"fmt": rnd.choice(["turtle", "n3"]), "carrier": "urls", "parts": rnd.randint(2, 3), "comp": None})
    return ds


class _Quiet(http.server.SimpleHTTPRequestHandler):
    def log_message(self, *a):
        pass


def start_server(directory):
    handler = lambda *a, **kw: _Quiet(*a, directory=directory, **kw)      # noqa
    srv = socketserver.ThreadingTCPServer(("127.0.0.1", 0), handler)
    srv.daemon_threads = True
    th = threading.Thread(target=srv.serve_forever, daemon=True)
    th.start()
    return srv, srv.server_address[1]


def big_document(n_lines=10240, width=128):
    """an N-Triples document whose every line is exactly `width` bytes (newline included): a line break falls on every multiple of
    `width`, in particular on every power-of-two block boundary up to the size of the document (> 1 MiB)"""
    T = []
    lines = []
    for i in range(n_lines):
        s = "<http://example.org/n%06d>" % (i // 2)
        if i % 2 == 0:
            head = "%s <%s> <http://example.org/Big%d> ." % (s, M.RDF_TYPE, i % 3)
            pad = width - 1 - len(head)
            line = "%s <%s> <http://example.org/Big%d>%s." % (s, M.RDF_TYPE, i % 3, " " * (pad + 1))
            T.append((("IRI", s[1:-1]), M.RDF_TYPE, ("IRI", "http://example.org/Big%d" % (i % 3))))
        else:
            fixed = len('%s <http://example.org/p> "" .' % s)
            lex = ("v%d" % i).ljust(width - 1 - fixed, "x")
            line = '%s <http://example.org/p> "%s" .' % (s, lex)
            T.append((("IRI", s[1:-1]), "http://example.org/p", (M.XSD_STRING, lex)))
        assert len(line) == width - 1, (len(line), line)
        lines.append(line)
    return "\n".join(lines) + "\n", T


def _read_big(payload):
    """reads the big document through a yielder-level channel twice (the two passes) and returns the sorted reads"""
    from shexer.utils.factories.triple_yielders_factory import get_triple_yielder
    def once():
        y = get_triple_yielder(**payload["kwargs"])
        return sorted(["|".join([str(getattr(s, "elem_type", "?")), str(s), str(p), str(getattr(o, "elem_type", "?")),
                                 str(o) if getattr(o, "elem_type", "") in ("IRI", "BNode") else ""]) for s, p, o in y.yield_triples()])
    st, v, exc, frame = runner.call_guarded(lambda: (once(), once()), timeout=300)
    if st != "ok":
        return {"id": payload["id"], "status": st, "exc": exc, "frame": frame, "sorted1": [], "sorted2": []}
    return {"id": payload["id"], "status": "ok", "exc": "", "frame": "", "sorted1": v[0], "sorted2": v[1]}


def big_document_traces(sc, rnd, tier):
    text, T = big_document(10240 if tier == "quick" else 40960)
    expected = sorted("|".join([s[0], s[1], p, o[0], o[1] if o[0] in ("IRI", "BNode") else ""]) for s, p, o in T)
    payloads = []
    for comp in (None, "gz", "xz", "zip"):
        if comp == "zip":
            pth = sc.path("nt.zip")
            half = text[: (len(text) // 256) * 128]
            with zipfile.ZipFile(pth, "w") as z:
                z.writestr("a.nt", half)
                z.writestr("b.nt", text[len(half):])
        else:
            pth = write_file(sc, text, "nt", comp)
        payloads.append({"id": "big.%s" % (comp or "plain"), "how": "nt/file/%s" % (comp or "plain"),
                         "kwargs": {"source_file": pth, "input_format": "nt", "compression_mode": comp}})
    results = runner.run_many(_read_big, payloads, procs=4, chunk=1)
    traces = []
    for p, r_ in zip(payloads, results):
        if r_.get("status") == "harness-error":
            raise common.Machinery("harness error: %s\n%s" % (r_.get("exc"), r_.get("trace", "")))
        blank = {"graph": [], "cfg": runner.tla_cfg(runner.default_cfg()), "status": "ok", "parse": "ok", "shapes": []}
        traces.append({"id": p["id"], "rel": "bigbag", "how": p["how"], "prop": "C08",
                       "a": dict(blank, sorted=expected), "b": dict(blank, status=r_["status"], sorted1=r_["sorted1"], sorted2=r_["sorted2"]), "c": blank})
    return traces


def _run_delivery(payload):
    """payload: {id, case, kwargs}; returns run result + what each pass read (hook pass.triple)"""
    from shexer.shaper import Shaper
    from shexer import consts as C
    case = payload["case"]
    rec = runner.install_recorder()
    kw = runner.shaper_kwargs(case, graph_kwargs=payload["kwargs"])
    if "rdflib_graph" in kw and isinstance(kw["rdflib_graph"], list):
        kw["rdflib_graph"] = M.to_rdflib(M.from_json_graph(kw["rdflib_graph"]))
    res = {"id": payload["id"], "status": "ok", "exc": "", "frame": "", "phase": ""}
    pre = payload.get("prelude")
    if pre:
        # the same path, read twice by this process with another content in between (a regenerated dump): an earlier extraction,
        # whose result is not judged, then the file is rewritten and the judged extraction runs
        with open(pre["path"], "w", encoding="utf8") as fh:
            fh.write(pre["first"])
        runner.call_guarded(lambda: Shaper(**kw).shex_graph(string_output=True), timeout=30)
        with open(pre["path"], "w", encoding="utf8") as fh:
            fh.write(pre["second"])
        rec = runner.install_recorder()
    st, sh, exc, frame = runner.call_guarded(lambda: Shaper(**kw), timeout=20)
    if st != "ok":
        res.update(status=st, exc=exc, frame=frame, phase="ctor")
        return res
    thr = case["cfg"]["thr"][0] / case["cfg"]["thr"][1]
    st, text, exc, frame = runner.call_guarded(lambda: sh.shex_graph(string_output=True, acceptance_threshold=thr), timeout=30)
    if st != "ok":
        res.update(status=st, exc=exc, frame=frame, phase="shex_graph")
        return res
    res["schema"] = runner.observe_schema(text, case)
    ev = rec.of("pass.triple") if rec is not None else []
    def norm(t):      # rdflib names blank nodes without the "_:" the line readers keep
        t = list(t)
        if t[0] == "BNode" and not t[1].startswith("_:"):
            t[1] = "_:" + t[1]
        if t[3] == "BNode" and not t[4].startswith("_:"):
            t[4] = "_:" + t[4]
        return t
    res["read1"] = [norm(e["triple"]) for e in ev if e["n_pass"] == 1]
    res["read2"] = [norm(e["triple"]) for e in ev if e["n_pass"] == 2]
    return res


def check_c08(out, tier):
    rnd = random.Random(common.seed() + 8)
    mine = lambda c: c.startswith("C08.")
    r = tlc.check_model("MC_Delivery", "MC_C08.cfg", workers=4, timeout=600)
    out.add_l1("MC_Delivery/MC_C08.cfg", r)
    for inv in r["violated"]:
        out.violation("L1.%s" % inv, {"model": "MC_Delivery"}, r["out"][-1500:])
    # literal typing by channel: the whole (lexical class x declared kind) table through every local channel, quoted and shorthand
    r = tlc.check_model("MC_LiteralTyping", "MC_LiteralTyping.cfg", workers=4, timeout=300)
    out.add_l1("MC_LiteralTyping/MC_LiteralTyping.cfg", r)
    for inv in r["violated"]:
        out.violation("L1.typing.%s" % inv, {"model": "MC_LiteralTyping"}, r["out"][-1500:])
    from harness import typing_leg
    typing_leg.leg(out, "C08", typing_leg.LOCAL_TEXT + ["rdflib"])
    k = pipeline.SIZES[tier]
    sc = Scratch()
    srv, port = start_server(sc.dir)
    try:
        big_traces = big_document_traces(sc, rnd, tier)
        payloads, meta = [], {}
        prevT, prev_bn = None, False
        for i in range(26 * k):
            bn = rnd.random() < .35
            if rnd.random() < .3:
                T = gen.schema_graph(rnd, bnodes=bn, typed_classes=not bn)
            else:
                # (a class that is itself an instance + blank-node subjects + inverse paths prints blank-node labels inside
                #  value sets - known finding KF.C09.bnodevalueset - and rdflib spells those labels differently)
                T = gen.general_graph(rnd, bnodes=bn, max_nodes=6, hierarchy=not bn)
            cfg = gen.switches(rnd)
            cfg["report"] = "mixed"
            base = gen.case("c08g%d" % i, T, **cfg)
            payloads.append({"id": base["id"] + ".ref", "case": base, "kwargs": None})
            if prevT is not None and rnd.random() < .5:
                # a path that held another graph when this process read it a moment ago
                fmt = rnd.choice(["nt", "tsv_spo", "turtle_iter"] + ([] if bn or prev_bn else ["turtle", "n3", "json-ld"] + (["xml"] if xml_expressible(T) and xml_expressible(prevT) else [])))
                d = {"fmt": fmt, "carrier": "rewritten file", "parts": 1, "comp": None}
                path = sc.path(FORMAT_EXT[fmt])
                pid = "%s.rw" % base["id"]
                payloads.append({"id": pid, "case": base, "kwargs": {"input_format": fmt, "graph_file_input": path},
                                 "prelude": {"path": path, "first": serialize(prevT, fmt, rnd), "second": serialize(T, fmt, rnd)}})
                meta[pid] = (base, d)
            prevT, prev_bn = T, bn
            for j, d in enumerate(deliveries(rnd, bn)):
                if d["fmt"] == "xml" and not xml_expressible(T):
                    out.skip("RDF/XML cannot write a predicate whose local part is not an XML name (format limit, not a channel of this graph)")
                    continue
                kw = delivery_kwargs(T, d, sc, rnd, port)
                if "rdflib_graph" in kw:
                    kw["rdflib_graph"] = M.to_json_graph(T)          # built in the worker (graphs do not pickle cheaply)
                pid = "%s.d%d" % (base["id"], j)
                payloads.append({"id": pid, "case": base, "kwargs": kw})
                meta[pid] = (base, d)
        import time as _t
        _t0 = _t.time()
        results = runner.run_many(_run_delivery, payloads, chunk=10)
        out.notes["run_wall_s"] = round(_t.time() - _t0, 1)
    finally:
        srv.shutdown()
        srv.server_close()
        sc.close()
    by = {}
    for p, r_ in zip(payloads, results):
        if r_.get("status") == "harness-error":
            raise common.Machinery("harness error: %s\n%s" % (r_.get("exc"), r_.get("trace", "")))
        by[p["id"]] = r_
    traces = big_traces
    for pid, (base, d) in meta.items():
        a = relations.run_block(base, by[base["id"] + ".ref"])
        b = relations.run_block(base, by[pid])
        b["read1"] = by[pid].get("read1", [])
        b["read2"] = by[pid].get("read2", [])
        a["read1"], a["read2"] = [], []
        traces.append({"id": pid, "rel": "delivery", "how": json.dumps(d), "prop": "C08", "a": a, "b": b, "c": b})
    verdicts, stats = tlc.validate_batch("Trace_Campaign", "Trace_Campaign.cfg", traces, procs=12)
    out.traces += len(payloads)
    out.evaluations += len(traces)
    out.notes["monitor_states"] = stats["states"]
    chan = {}
    for t in traces:
        v = verdicts[t["id"]]
        if t["rel"] == "bigbag":
            out.nontrivial.add(t["id"])
            out.judge_clauses(v["clauses"], {"delivery": t["how"], "big": True}, mine, detail="large aligned document, %s" % t["how"])
            chan["big/" + t["how"]] = 1
            continue
        base, d = meta[t["id"]]
        key = "%s/%s%s" % (d["fmt"], d["carrier"], "/" + d["comp"] if d["comp"] else "")
        chan[key] = chan.get(key, 0) + 1
        out.nontrivial.add(t["id"])
        r_ = by[t["id"]]
        if r_["status"] != "ok":
            # the reference run succeeded on the same graph: a channel that cannot deliver it is a C08 failure
            if by[base["id"] + ".ref"]["status"] == "ok":
                out.violation("C08.channel.%s:%s@%s" % (r_["status"], r_["exc"], r_["frame"]), {"delivery": d, "case": base}, "delivery %s" % d)
            else:
                out.skip("reference run crashed (judged by C04)")
            continue
        if any(c.startswith("MACHINERY") for c in v["clauses"]):
            raise common.Machinery("C08 %s: %s" % (t["id"], v["clauses"]))
        if "SKIP.crashed" in v["clauses"]:
            ref = by[base["id"] + ".ref"]
            if ref["status"] != "ok":
                # this channel delivered the graph and the raw N-Triples string - the reference channel - could not: the two
                # channels disagree just the same (a reference that fails on every channel is C04's business)
                out.violation("C08.channel.reference.%s:%s@%s" % (ref["status"], ref["exc"], ref["frame"]), {"delivery": d, "case": base},
                              "the raw N-Triples string failed where delivery %s succeeded" % d)
            else:
                out.skip("reference run crashed (judged by C04)")
            continue
        out.judge_clauses(v["clauses"], {"delivery": d, "case": base}, mine, detail="delivery %s" % d)
        out.sample({"delivery": d, "triples": len(base["graph"]), "read_pass2": len(t["b"]["read2"]), "clauses": v["clauses"]})
    out.notes["channels"] = chan
    return ("every graph (general / schema-consistent; blank-node instances only for the line-oriented readers and the Graph object) is "
            "delivered through every channel: {N-Triples, TSV, streaming Turtle} x {raw string, file, gz/xz file, zip with 1-3 members, "
            "2-4 files (plain / gz / xz / zip)} and, for IRI graphs, {Turtle, N3, RDF/XML, JSON-LD via rdflib} in the same carriers, an rdflib "
            "Graph object, a URL and a list of URLs (loopback HTTP); each is compared with the raw N-Triples reference by Trace_Campaign: "
            "the bag each pass read (hook pass.triple) equals the document, and the schema is the same outside tie groups")


def replay(prop, d):
    out = common.Outcome(prop, "quick")
    print("replay of %s cases: re-run the check with the same VERIF_SEED (deliveries are regenerated from the seed)" % prop)
    return common.finish(out, rule="replay")


REGISTRY = {"C08": check_c08}


# ------------------------------------------------------------------------------------------------ C15
ENDPOINT_URL = "http://127.0.0.1:9/sparql"
_EP = {"graph": None, "log": []}


class _FakeResult(object):
    def __init__(self, data):
        self._data = data

    def convert(self):
        return self._data


def install_fake_endpoint(T):
    """substitutes the HTTP client (third-party boundary): SPARQLWrapper.query evaluates the query text on an rdflib graph"""
    import SPARQLWrapper
    _EP["graph"] = M.to_rdflib(T)
    _EP["log"] = []

    def query(self):
        q = self.queryString
        _EP["log"].append(q)
        res = _EP["graph"].query(q)
        return _FakeResult(json.loads(res.serialize(format="json")))
    SPARQLWrapper.SPARQLWrapper.query = query


def _run_endpoint(payload):
    """payload: {id, case, cached: bool} -> run result + number of queries"""
    from shexer.shaper import Shaper
    case = payload["case"]
    T = M.from_json_graph(case["graph"])
    install_fake_endpoint(T)
    kw = runner.shaper_kwargs(case, graph_kwargs={"url_endpoint": ENDPOINT_URL})
    kw.pop("input_format", None)
    kw["disable_endpoint_cache"] = not payload["cached"]
    if payload.get("limit"):
        kw["limit_remote_instances"] = payload["limit"]
    res = {"id": payload["id"], "status": "ok", "exc": "", "frame": "", "phase": "", "queries": 0}
    st, sh, exc, frame = runner.call_guarded(lambda: Shaper(**kw), timeout=20)
    if st != "ok":
        res.update(status=st, exc=exc, frame=frame, phase="ctor")
        return res
    thr = case["cfg"]["thr"][0] / case["cfg"]["thr"][1]
    st, text, exc, frame = runner.call_guarded(lambda: sh.shex_graph(string_output=True, acceptance_threshold=thr), timeout=40)
    res["queries"] = len(_EP["log"])
    if st != "ok":
        res.update(status=st, exc=exc, frame=frame, phase="shex_graph")
        return res
    res["schema"] = runner.observe_schema(text, case)
    res["text_sha"] = hashlib.sha256(text.encode("utf8")).hexdigest()
    return res


def endpoint_graph(rnd):
    """IRI nodes, plain-string and integer literals (what the endpoint result reader keeps)"""
    T = [t for t in gen.general_graph(rnd, bnodes=False, rich_literals=False, max_nodes=6)]
    if rnd.random() < .35:
        # plain strings that differ only in blanks around the text are different values: every store on the way (the local cache of
        # the endpoint graph is an rdflib Graph) has to keep them apart
        subs = sorted({s for s, _p, _o in T}, key=str)
        if subs:
            n = rnd.choice(subs)
            w = rnd.choice(["w", "two words", "x1"])
            for v in rnd.sample([w, w + " ", " " + w, " " + w + " ", w + "  "], rnd.randint(2, 3)):
                T.append((n, M.EX + "pad", M.lit(v)))
    return T


def check_c15(out, tier):
    rnd = random.Random(common.seed() + 15)
    mine = lambda c: c.startswith("C15.")
    r = tlc.check_model("EndpointCache", "MC_C15.cfg", workers=8, timeout=900)
    out.add_l1("EndpointCache/MC_C15.cfg", r)
    for inv in r["violated"]:
        out.violation("L1.%s" % inv, {"model": "EndpointCache"}, r["out"][-1500:])
    # unbounded in the number of requests: one step from every state of the inductive invariant (spec/MC_EndpointInd.tla)
    r = tlc.check_model("MC_EndpointInd", "MC_C15_inductive.cfg", workers=8, timeout=900)
    out.add_l1("MC_EndpointInd/MC_C15_inductive.cfg", r)
    for inv in r["violated"]:
        out.violation("L1.inductive.%s" % inv, {"model": "MC_EndpointInd"}, r["out"][-1500:])
    # literal typing by channel: the whole (lexical class x declared kind) table through the endpoint result reader
    r = tlc.check_model("MC_LiteralTyping", "MC_LiteralTyping.cfg", workers=4, timeout=300)
    out.add_l1("MC_LiteralTyping/MC_LiteralTyping.cfg", r)
    for inv in r["violated"]:
        out.violation("L1.typing.%s" % inv, {"model": "MC_LiteralTyping"}, r["out"][-1500:])
    from harness import typing_leg
    typing_leg.leg(out, "C15", ["endpoint"])
    k = pipeline.SIZES[tier]
    payloads, groups = [], []
    for i in range(90 * k):
        T = endpoint_graph(rnd)
        cfg = gen.switches(rnd)
        cfg["report"] = "mixed"
        classes = gen.classes_of(T)
        r_ = rnd.random()
        if r_ < .4 or not classes:
            cfg["mode"] = "all"
        elif r_ < .75:
            cfg["mode"] = "classes"
            cfg["targets"] = rnd.sample(classes, rnd.randint(1, len(classes)))
            cfg["spelling"] = rnd.choice(["full", "bracket", "prefixed"])      # class names are accepted in the three spellings
            cfg["nsDict"] = gen.NSDICT
            if rnd.random() < .5:
                # instances_cap not smaller than any target class: every instance is still selected, whatever order the endpoint
                # answers in, so the result must not change; a cap equal to the class sizes makes the tracker stop reading early
                sizes = [sum(1 for s_, p_, o_ in T if p_ == M.RDF_TYPE and o_[1] == cl) for cl in cfg["targets"]]
                if rnd.random() < .6:
                    cfg["targets"] = [cl for cl, n_ in zip(cfg["targets"], sizes) if n_ == max(sizes)]
                cfg["cap"] = max(sizes) + rnd.choice([0, 0, 1])
        else:
            cfg["mode"] = "shapemap"
            cfg["items"] = pipeline.shape_map_items(rnd, T, classes, wildcards=True)
            cfg["nsDict"] = gen.NSDICT
        base = gen.case("c15g%d" % i, T, **cfg)
        payloads.append({"id": base["id"] + ".local", "case": base, "kind": "local"})
        payloads.append({"id": base["id"] + ".cached", "case": base, "kind": "ep", "cached": True})
        payloads.append({"id": base["id"] + ".uncached", "case": base, "kind": "ep", "cached": False})
        groups.append(base)
    # more target nodes than any batching of the exploration could hold at once (a ring of links among > 100 instances), with
    # inverse paths: every link is an outgoing arc of one target and an incoming arc of another
    for j, n in enumerate([104] if tier == "quick" else [104, 150, 230]):
        nodes = [M.iri(M.EX + "r%d" % i) for i in range(n)]
        T = [(x, M.RDF_TYPE, M.iri(M.EX + "Ring")) for x in nodes]
        T += [(nodes[i], M.EX + "knows", nodes[(i * 7 + 3) % n]) for i in range(n)]
        rnd.shuffle(T)
        mode = rnd.choice(["all", "classes"])
        base = gen.case("c15ring%d" % j, T, inverse=True, report="mixed", mode=mode, targets=[M.EX + "Ring"] if mode == "classes" else [])
        payloads.append({"id": base["id"] + ".local", "case": base, "kind": "local"})
        payloads.append({"id": base["id"] + ".cached", "case": base, "kind": "ep", "cached": True})
        payloads.append({"id": base["id"] + ".uncached", "case": base, "kind": "ep", "cached": False})
        groups.append(base)
    results = runner.run_many(_run_c15, payloads, chunk=6)
    by = {}
    for p, r_ in zip(payloads, results):
        if r_.get("status") == "harness-error":
            raise common.Machinery("harness error: %s\n%s" % (r_.get("exc"), r_.get("trace", "")))
        by[p["id"]] = r_
    traces = []
    for base in groups:
        loc, ca, un = by[base["id"] + ".local"], by[base["id"] + ".cached"], by[base["id"] + ".uncached"]
        if loc["status"] != "ok":
            out.skip("local run crashed (judged by C04)")
            continue
        for kind, r_ in (("cached", ca), ("uncached", un)):
            if r_["status"] != "ok":
                out.violation("C15.endpoint.%s:%s@%s" % (r_["status"], r_["exc"], r_["frame"]), {"case": base, "kind": kind}, "endpoint run failed where the local run succeeds")
        if ca["status"] != "ok" or un["status"] != "ok":
            continue
        a = relations.run_block(base, loc)
        traces.append({"id": base["id"] + ".eq", "rel": "same", "how": "endpoint", "prop": "C15", "a": a, "b": relations.run_block(base, ca), "c": a})
        traces.append({"id": base["id"] + ".cache", "rel": "same", "how": "cache", "prop": "C15", "a": relations.run_block(base, un), "b": relations.run_block(base, ca), "c": a})
        if ca["queries"] > un["queries"]:
            out.violation("C15.morequeries", {"case": base}, "cached run sent %d queries, uncached %d" % (ca["queries"], un["queries"]))
        if ca["queries"] == 0:
            out.violation("C15.noqueries", {"case": base}, "the endpoint run sent no query at all: the substitute endpoint was bypassed")
        out.sample({"case": base["id"], "mode": base["cfg"]["mode"], "queries_cached": ca["queries"], "queries_uncached": un["queries"]})
    verdicts, stats = tlc.validate_batch("Trace_Campaign", "Trace_Campaign.cfg", traces, procs=10, xss="64m")
    out.traces += len(payloads)
    out.evaluations += len(traces)
    out.notes["monitor_states"] = stats["states"]
    byid = {g["id"]: g for g in groups}
    for t in traces:
        v = verdicts[t["id"]]
        out.nontrivial.add(t["id"])
        if any(c.startswith("MACHINERY") for c in v["clauses"]):
            raise common.Machinery("C15 %s: %s" % (t["id"], v["clauses"]))
        if "SKIP.crashed" in v["clauses"]:
            continue
        out.judge_clauses(v["clauses"], {"case": byid[t["id"].rsplit(".", 1)[0]], "rel": t["how"]}, mine, detail=t["how"])
    return ("graphs with IRI nodes and plain-string / integer literals x {all classes, target classes, shape map} x inference switches x inverse "
            "paths: the extraction against an in-process SPARQL evaluator substituted for the HTTP client (cache on and off) is compared with "
            "the local extraction by Trace_Campaign (same schema outside tie groups); the query log gives queries(cached) <= queries(uncached)")


def _run_c15(payload):
    if payload["kind"] == "local":
        r = runner.run_case(payload["case"])
        r["queries"] = 0
        return r
    return _run_endpoint(payload)


REGISTRY["C15"] = check_c15


# ------------------------------------------------------------------------------------------------ C19
_SEED_RUNNER = r'''
import sys, json, hashlib, os
sys.path.insert(0, %(root)r)
os.environ["SHEXER_VERIF"] = "1"
from harness import runner, channels, rdfmodel as M
cases = json.load(open(sys.argv[1]))
out = []
for c in cases:
    if c.get("targetsFile"):
        c["targetsPath"] = sys.argv[2] + ".classes_%%s.txt" %% c["id"]      # (one file per seed run and case)
    if c.get("endpoint"):
        r = channels._run_endpoint({"id": c["id"], "case": c, "cached": True})
        text_sha = r.get("text_sha", "")
    else:
        r = runner.run_case(c, want_text=True)
        t = r.get("text")
        if t is not None and c["cfg"]["format"] == "shacl":
            import rdflib
            from rdflib.compare import to_isomorphic
            g = rdflib.Graph(); g.parse(data=t, format="turtle")
            text_sha = "iso:" + str(to_isomorphic(g).internal_hash())
        else:
            text_sha = hashlib.sha256(t.encode("utf8")).hexdigest() if t is not None else ""
    out.append({"id": c["id"], "status": r["status"], "exc": r.get("exc", ""), "sha": text_sha})
json.dump(out, open(sys.argv[2], "w"))
'''


def check_c19(out, tier):
    rnd = random.Random(common.seed() + 19)
    r = tlc.check_model("MC_Shexer", "MC_C19_%s.cfg" % tier, workers=8, timeout=1500)
    out.add_l1("MC_Shexer/MC_C19_%s.cfg" % tier, r)
    for inv in r["violated"]:
        out.violation("L1.%s" % inv, {"model": "MC_Shexer"}, r["out"][-1500:])
    k = pipeline.SIZES[tier]
    cases = []
    for i in range(36 * k):
        shapemap = rnd.random() < .3
        T = gen.general_graph(rnd, bnodes=not shapemap and rnd.random() < .5, max_nodes=6)
        cfg = gen.switches(rnd, ors=True)
        pipeline.target_variants(rnd, T, cfg, shapemap)
        cfg["format"] = rnd.choice(["shexc", "shexc", "shacl"])
        if cfg["format"] == "shacl":
            cfg["disableOr"], cfg["redundantOr"] = True, False
        cfg["examples"] = rnd.choice(["", "", "all"]) if cfg["format"] == "shexc" else ""
        cfg["minIri"] = rnd.random() < .3
        cases.append(gen.case("c19g%d" % i, T, **cfg))
    cases += [gen.or_fan_case(rnd, "c19o%d" % i) for i in range(8 * k)]      # disjunctions rewritten after an empty shape is removed
    cases += [gen.fan_case(rnd, "c19f%d" % i) for i in range(6 * k)]
    for i in range(24 * k):
        T = endpoint_graph(rnd)
        cfg = gen.switches(rnd)
        classes = gen.classes_of(T)
        if classes and rnd.random() < .5:
            cfg["mode"] = "classes"
            cfg["targets"] = rnd.sample(classes, rnd.randint(1, len(classes)))
        elif classes and rnd.random() < .5:
            cfg["mode"] = "shapemap"
            cfg["items"] = pipeline.shape_map_items(rnd, T, classes, wildcards=True)
            cfg["nsDict"] = gen.NSDICT
        c = gen.case("c19e%d" % i, T, **cfg)
        c["endpoint"] = True
        cases.append(c)
    # incoming links from several subjects to the instances of one class, behind the endpoint, with inverse paths and example
    # annotations: the first-seen example of a '^' constraint shows the order in which the targets were asked for incoming triples
    for i in range(10 * k):
        T = gen.sources_graph(rnd)
        cfg = gen.switches(rnd, inverse=True)
        cfg["examples"] = rnd.choice(["all", "cons"])
        if rnd.random() < .5:
            cfg.update(mode="classes", targets=[M.EX + "T"])
        c = gen.case("c19x%d" % i, T, **cfg)
        c["endpoint"] = True
        cases.append(c)
    # the target classes listed in a file (file_target_classes), several classes, local and behind the endpoint
    for i in range(12 * k):
        T = gen.multi_graph(rnd) if i % 4 == 3 else endpoint_graph(rnd)
        classes = gen.classes_of(T)
        for j in range(3):       # a few more classes, so that the file has enough lines for an order to show
            x = M.iri(M.EX + "extra%d" % j)
            T += [(x, M.RDF_TYPE, M.iri(M.EX + "Z%d" % j)), (x, M.EX + "p0", M.lit("s%d" % j))]
            classes.append(M.EX + "Z%d" % j)
        cfg = gen.switches(rnd)
        cfg["mode"] = "classes"
        cfg["targets"] = rnd.sample(classes, rnd.randint(max(2, len(classes) - 2), len(classes)))
        cfg["spelling"] = rnd.choice(["full", "bracket", "prefixed"])
        cfg["nsDict"] = gen.NSDICT
        c = gen.case("c19c%d" % i, T, **cfg)
        c["targetsFile"] = i % 3 != 2
        if i % 2 == 1:            # a class named twice, spelled differently: the same set of targets, in the order of first mention
            c["targetsTwice"] = rnd.sample(cfg["targets"], rnd.randint(1, 2))
        c["endpoint"] = i % 4 != 3
        cases.append(c)
    for i in range(8 * k):        # a list of files / of zip archives, one class per part: the parts are read in list order
        T = []
        for j in range(4):
            for x in range(2):
                n = M.iri(M.EX + "z%d_%d" % (j, x))
                T += [(n, M.RDF_TYPE, M.iri(M.EX + "Z%d" % j)), (n, M.EX + "p%d" % j, M.lit("v"))]
        c = gen.case("c19z%d" % i, T, **gen.switches(rnd))
        c["channel"] = "zips" if i % 2 == 0 else "files"
        c["parts"] = 4
        cases.append(c)
    for i in range(6 * k):        # the graph parsed by rdflib (a Turtle / RDF-XML text, a Graph object): a recorded finding
        T = gen.general_graph(rnd, bnodes=False, max_nodes=6)
        c = gen.case("c19r%d" % i, T, **gen.switches(rnd))
        c["channel"] = ["turtle", "rdflib", "xml" if xml_expressible(T) else "turtle"][i % 3]
        cases.append(c)
    for i in range(6 * k):        # selectors that answer a node several times, local and on the endpoint
        c = gen.tied_focus_case(rnd, "c19t%d" % i)
        c["endpoint"] = i % 3 != 0
        cases.append(c)
    for p in common.load_pinned("C19"):
        if "case" in p:
            pc = dict(p["case"])
            pc["id"] = "pin:" + p["file"]
            cases.append(pc)
    seeds = list(range(6)) if tier == "quick" else list(range(32))
    work = tempfile.mkdtemp(prefix="shexer-verif-c19-")
    try:
        inp = os.path.join(work, "cases.json")
        with open(inp, "w") as fh:
            json.dump(cases, fh)
        script = os.path.join(work, "seedrun.py")
        with open(script, "w") as fh:
            fh.write(_SEED_RUNNER % {"root": common.ROOT})
        procs = []
        for s in seeds:
            env = dict(os.environ, PYTHONHASHSEED=str(s), SHEXER_REPO=runner.REPO)
            outp = os.path.join(work, "out%d.json" % s)
            procs.append((s, outp, subprocess.Popen(["/venv/bin/python", "-u", script, inp, outp], env=env, stdout=subprocess.PIPE, stderr=subprocess.STDOUT)))
        per_seed = {}
        for s, outp, p in procs:
            log, _ = p.communicate(timeout=1800)
            if p.returncode != 0 or not os.path.exists(outp):
                raise common.Machinery("seed run %d failed:\n%s" % (s, log.decode("utf8", "replace")[-1500:]))
            with open(outp) as fh:
                per_seed[s] = {r_["id"]: r_ for r_ in json.load(fh)}
    finally:
        shutil.rmtree(work, ignore_errors=True)
    traces = []
    for c in cases:
        obs = [{"seed": s, "status": per_seed[s][c["id"]]["status"], "sha": per_seed[s][c["id"]]["sha"]} for s in seeds]
        traces.append({"id": c["id"], "runs": obs, "channel": c.get("channel", "nt")})
    verdicts, stats = tlc.validate_batch("Trace_Seeds", "Trace_Seeds.cfg", traces, procs=2)
    out.traces += len(cases) * len(seeds)
    out.evaluations += len(cases)
    for c in cases:
        v = verdicts[c["id"]]
        out.nontrivial.add(c["id"])
        shas = sorted({per_seed[s][c["id"]]["sha"] for s in seeds})
        out.judge_clauses(v["clauses"], {"case": c}, lambda x: x.startswith("C19."), detail="distinct outputs over seeds %s: %d" % (seeds, len(shas)))
        out.sample({"case": c["id"], "endpoint": bool(c.get("endpoint")), "mode": c["cfg"]["mode"], "distinct_outputs": len(shas), "seeds": len(seeds)})
    return ("local extractions (all target modes incl. shape maps and SPARQL selectors, OR, examples, min-IRI, ShExC bytes / SHACL up to "
            "isomorphism) and extractions through the substitute endpoint, each run in a fresh interpreter per PYTHONHASHSEED in 0..%d: all "
            "outputs of one case must be identical (judged by Trace_Seeds); L1: the model's output is independent of the tie-break salt "
            "outside tie groups" % (len(seeds) - 1))


REGISTRY["C19"] = check_c19
